"""CAS rules: cassette block writers against the CoCo tape format; reader/writer layout agreement."""
import ast
import re

from ..model import U, body_without_doc, AnalysisError
from ..consteval import try_fold
from ..seqx import Extractor, paths, count_bytes
from ..absint import Interp, Ctor, Lin, Const, Opq, PathCap
from ..refs import cocotape as T

CLS = "CassetteFile"
ACC = ("checksum",)


def _methods(ctx):
    c = ctx.repo.cls(CLS)
    return {n: f.node for n, f in c.methods.items()}


def _norm(fn_node, text):
    """replace parameter names (except self) by $1, $2 ..."""
    params = [a.arg for a in fn_node.args.args if a.arg != "self"]
    for i, p in enumerate(params):
        text = re.sub(r"(?<![\w.])%s(?![\w])" % re.escape(p), "$%d" % (i + 1), text)
    return text


def _norm_items(fn_node, items):
    out = []
    for it in items:
        if it[0] == "byte":
            out.append(("byte", _norm(fn_node, it[1]), it[2], it[3]))
        elif it[0] == "acc":
            out.append(("acc", it[1], it[2], _norm(fn_node, it[3]), it[4]))
        elif it[0] == "rep":
            out.append(("rep", _norm(fn_node, it[1]), it[2], _norm_items(fn_node, it[3]), it[4]))
        elif it[0] == "alt":
            out.append(("alt", _norm(fn_node, it[1]), _norm_items(fn_node, it[2]), _norm_items(fn_node, it[3])))
        elif it[0] == "call":
            out.append(("call", it[1], [_norm(fn_node, a) for a in it[2]], it[3], it[4]))
        elif it[0] == "ret":
            out.append(("ret", _norm(fn_node, it[1]) if it[1] else None))
        elif it[0] == "rebind":
            out.append(("rebind", _norm(fn_node, it[1]), {k: (_norm(fn_node, v[0]), v[1]) for k, v in it[2].items()}, it[3]))
        elif it[0] == "paramassign":
            out.append(("paramassign", _norm(fn_node, it[1]), _norm(fn_node, it[2]), it[3]))
        elif it[0] == "let":
            out.append(("let", it[1], _norm(fn_node, it[2]), it[3], it[4]))
        else:
            out.append(it)
    return out


def _fold_value_text(text):
    """NumericValue(c).high_byte() / .low_byte() / .int with constant c -> int"""
    m = re.fullmatch(r"\(?NumericValue\((0x[0-9A-Fa-f]+|\d+)\)\)?\.(high_byte\(\)|low_byte\(\)|int)", text)
    if not m:
        return None
    v = int(m.group(1), 0)
    if m.group(2) == "int":
        return v
    return (v >> 8) & 0xFF if m.group(2).startswith("high") else (v & 0xFF if v > 0xFF else v)


def let_names(flat):
    """-> (names bound more than once on this path, names bound once)"""
    cnt = {}
    for it in _walk_items(flat):
        if it[0] == "let":
            cnt[it[1]] = cnt.get(it[1], 0) + 1
    return {k for k, v in cnt.items() if v > 1}, {k for k, v in cnt.items() if v == 1}


def apply_rebinds(flat):
    """x = x._replace(field=v): later reads of x.field denote v (NamedTuple semantics).
    A local bound more than once on the path (name = a ... name = b) is replaced by its current value at each use; a local bound
    once stays an opaque name (it means the same thing wherever it appears)."""
    over = {}
    lets = {}
    out = []
    rebound, _ = let_names(flat)

    def rw(text):
        if text is None:
            return text, None
        changed = False
        if text in lets:
            return lets[text]
        for nm, (val, _) in lets.items():
            pat = r"(?<![\w.$])%s\b(?!\s*\()" % re.escape(nm)
            if re.search(pat, text):
                simple = re.fullmatch(r"[\w.$]+(\(\))?", val) is not None
                text = re.sub(pat, lambda m: val if simple else "(%s)" % val, text)
                changed = True
        for (name, field), val in over.items():
            pat = r"(?<![\w.])%s\.%s\b" % (re.escape(name), re.escape(field))
            if re.search(pat, text):
                text = re.sub(pat, lambda m: val, text)
                changed = True
        return text, (_fold_value_text(text) if changed else None)

    def walk(items):
        res = []
        for it in items:
            if it[0] == "rebind":
                for k, v in it[2].items():
                    over[(it[1], k)] = v[0]
                continue
            if it[0] == "let":
                if it[1] in rebound:
                    t, cst = rw(it[2])
                    lets[it[1]] = (t, cst if cst is not None else (it[3] if t == it[2] else None))
                continue
            if it[0] == "byte":
                t, cst = rw(it[1])
                res.append(("byte", t, cst if cst is not None else (it[2] if t == it[1] else None), it[3]))
            elif it[0] == "acc":
                t, cst = rw(it[3])
                res.append(("acc", it[1], it[2], t, cst if cst is not None else (it[4] if t == it[3] else None)))
            elif it[0] == "rep":
                res.append(("rep", it[1], it[2], walk(it[3]), it[4]))
            else:
                res.append(it)
        return res
    return walk(flat)


def _writer_accs(ctx, methods):
    """accumulator variable names: locals of the writers that are masked into an appended byte"""
    return ACC


def _extract(ctx):
    def build():
        methods = _methods(ctx)
        ex = Extractor(methods, ctx.env, acc_vars=_acc_vars(methods))
        items = {n: _norm_items(methods[n], ex.of_method(n)) for n in methods}
        return methods, items
    return ctx.memo("cas-extract", build)


def _acc_vars(methods):
    """local names assigned an int and later appended under a mask: the checksum accumulators (discovered, not named)"""
    names = set()
    for fn in methods.values():
        for n in ast.walk(fn):
            if isinstance(n, ast.Call) and isinstance(n.func, ast.Attribute) and n.func.attr == "append" and n.args:
                a = n.args[0]
                if isinstance(a, ast.BinOp) and isinstance(a.op, (ast.BitAnd, ast.Mod)) and isinstance(a.left, ast.Name):
                    names.add(a.left.id)
            if isinstance(n, ast.Return) and isinstance(n.value, ast.Name):
                # helper returning its running sum (append_name)
                names.add(n.value.id)
    return names or set(ACC)


def _emits_bytes(items):
    for it in items:
        if it[0] == "byte":
            return True
        if it[0] == "rep" and _emits_bytes(it[3]):
            return True
        if it[0] == "alt" and (_emits_bytes(it[2]) or _emits_bytes(it[3])):
            return True
    return False


def _only_const_bytes(items, value):
    """True if the items emit only constant `value` bytes (any count)"""
    ok = False
    for it in items:
        if it[0] == "byte":
            if it[2] != value:
                return False
            ok = True
        elif it[0] == "rep":
            if not _only_const_bytes(it[3], value):
                return False
            ok = True
        elif it[0] in ("alt", "call", "other", "acc"):
            return False
    return ok


def _inline(items_by_name, items, self_name, depth=0):
    """inline calls to byte-emitting helpers (not fillers, not self-recursion)"""
    out = []
    for it in items:
        if it[0] == "call" and it[1] != self_name and depth < 3:
            callee = items_by_name.get(it[1], [])
            if _only_const_bytes(callee, T.LEADER_BYTE) or _only_const_bytes(callee, 0x00):
                out.append(("filler", it[1], 0x55 if _only_const_bytes(callee, 0x55) else 0x00))
                continue
            if it[3] is not None or _emits_bytes(callee):
                sub = _inline(items_by_name, callee, it[1], depth + 1)
                # substitute callee parameters $n by the call arguments
                def subst(t):
                    if t is None:
                        return t
                    for i, a in enumerate(it[2]):
                        t = t.replace("$%d" % (i + 1), "\0%d" % i)
                    for i, a in enumerate(it[2]):
                        t = t.replace("\0%d" % i, a)
                    return t

                def rewrite(xs):
                    r = []
                    for x in xs:
                        if x[0] == "byte":
                            r.append(("byte", subst(x[1]), x[2], x[3]))
                        elif x[0] == "acc":
                            if it[3] is None:
                                continue
                            op = "+=" if (x[2] == "+=" or it[3][0] == "+=") else "="
                            r.append(("acc", it[3][1], op, subst(x[3]), x[4]))
                        elif x[0] == "rep":
                            r.append(("rep", subst(x[1]), x[2], rewrite(x[3]), x[4]))
                        elif x[0] == "alt":
                            r.append(("alt", subst(x[1]), rewrite(x[2]), rewrite(x[3])))
                        elif x[0] == "ret":
                            continue
                        else:
                            r.append(x)
                    return r
                out += rewrite(sub)
                continue
        if it[0] == "rep":
            out.append(("rep", it[1], it[2], _inline(items_by_name, it[3], self_name, depth), it[4]))
        elif it[0] == "alt":
            out.append(("alt", it[1], _inline(items_by_name, it[2], self_name, depth), _inline(items_by_name, it[3], self_name, depth)))
        else:
            out.append(it)
    return out


def _block_writers(ctx):
    """the methods add_file calls that (with their helpers inlined) emit the sync bytes 55 3C: discovered by what they do"""
    def build():
        methods, items = _extract(ctx)
        top = [it[1] for it in _walk_items(items.get("add_file", [])) if it[0] == "call"]
        out = {}
        for n in dict.fromkeys(top):
            inl = _inline(items, items.get(n, []), n)
            bs = [x for x in _walk_items(inl) if x[0] == "byte"]
            consts = [x[2] for x in bs[:3]]
            if len(consts) >= 3 and consts[0] == T.SYNC[0] and consts[1] == T.SYNC[1] and consts[2] is not None:
                out[n] = consts[2]
        return out
    return ctx.memo("cas-writers", build)


def _walk_items(items):
    for it in items:
        yield it
        if it[0] == "rep":
            for x in _walk_items(it[3]):
                yield x
        elif it[0] == "alt":
            for x in _walk_items(it[2]):
                yield x
            for x in _walk_items(it[3]):
                yield x


def _frame(flat):
    """split a flat path into (frame items up to and including the closing byte, accs, tail)"""
    frame, accs, tail = [], [], []
    closed = False
    prev_was_ck = False
    for it in flat:
        if closed:
            tail.append(it)
            continue
        if it[0] == "acc":
            accs.append(it)
            continue
        if it[0] in ("byte", "rep"):
            frame.append(it)
            if prev_was_ck and it[0] == "byte":
                closed = True
            prev_was_ck = it[0] == "byte" and any(re.search(r"(?<![\w.])%s(?![\w])" % re.escape(a[1]), it[1]) for a in accs) and it[2] is None
            continue
        frame.append(it)
    return frame, accs, tail, closed


def _pair(frame, accs):
    """checksum pairing: bytes from the type byte to the byte before the checksum byte vs accumulated terms.
    returns (ok|None, explanation)"""
    body = frame[2:-2]
    wconst, wsym = 0, []
    for it in body:
        if it[0] == "byte":
            if it[2] is not None:
                wconst += it[2]
            else:
                wsym.append(it[1])
        elif it[0] == "rep":
            for conds, flat in paths(it[3]):
                bs = sorted((x[1] if x[2] is None else "#%d" % x[2]) for x in flat if x[0] == "byte")
                cs = sorted((x[3] if x[4] is None else "#%d" % x[4]) for x in flat if x[0] == "acc")
                if [b for b in bs if b != "#0"] != [c for c in cs if c != "#0"]:
                    return False, "inside the loop over %s: bytes written %s but checksum terms %s" % (it[1], bs, cs)
                if any(x[0] not in ("byte", "acc") for x in flat):
                    return None, "loop body has an unknown item"
        else:
            return None, "unknown item %s in the frame" % (it[0],)
    aconst, asym = 0, []
    for a in accs:
        if a[4] is not None:
            aconst += a[4]
        else:
            asym.append(a[3])
    if (wconst - aconst) % 256 != 0 or sorted(wsym) != sorted(asym):
        missing = sorted(set(wsym) - set(asym))
        extra = sorted(set(asym) - set(wsym))
        return False, "bytes written: const %#x + %s; checksum terms: const %#x + %s%s%s" % (
            wconst & 0xFF, sorted(wsym), aconst & 0xFF, sorted(asym),
            "; written but not summed: %s" % missing if missing else "", "; summed but not written: %s" % extra if extra else "")
    return True, "const %#x + %d symbolic terms" % (wconst & 0xFF, len(wsym))


FIELD_PAT = [
    ("file_type", r"\.type\b(?!\w)"),
    ("data_type", r"\.data_type\b"),
    ("gap_flag", r"\.gaps\b"),
    ("load_hi", r"\.load_addr\.high_byte\(\)"), ("load_lo", r"\.load_addr\.low_byte\(\)"),
    ("exec_hi", r"\.exec_addr\.high_byte\(\)"), ("exec_lo", r"\.exec_addr\.low_byte\(\)"),
]


def _field(text):
    for name, pat in FIELD_PAT:
        if re.search(pat, text):
            return name
    return None


def cas1(ctx, c):
    """CAS-1 frame grammar + CAS-2 pairing + CAS-3 lengths on every path of every block writer."""
    repo = ctx.repo
    methods, items = _extract(ctx)
    writers = _block_writers(ctx)
    c.floor("block writers (methods emitting 55 3C)", len(writers), 3)
    kinds = sorted(writers.values())
    for t in (T.BLOCK_NAMEFILE, T.BLOCK_DATA, T.BLOCK_EOF):
        if t in kinds:
            c.ok("writers", "block type %#04x written" % t, repo.cls(CLS).module.rel)
        else:
            c.undecided("writers:%#04x" % t, "no method recognised as the writer of this block type (blocks may be framed by a shared helper)", "", repo.cls(CLS).module.rel)
    for name, btype in sorted(writers.items()):
        fn = repo.method(CLS, name)
        where = repo.loc(fn, fn.node)
        inl = _inline(items, items[name], name)
        npaths = 0
        if all(x[0] == "byte" and x[2] is not None for x in items[name]):
            continue    # literal frame: judged below
        for conds, flat in paths(inl):
            cd = ", ".join("%s=%s" % kv for kv in conds) or "always"
            if flat and flat[0][0] == "ret" or not any(x[0] == "byte" for x in flat):
                if btype in (T.BLOCK_NAMEFILE, T.BLOCK_EOF) and conds:
                    c.finding("%s[%s]:missing" % (name, cd), "no %s block is written when %s" % ("name-file" if btype == T.BLOCK_NAMEFILE else "end-of-file", cd[:60]),
                              "%s returns without writing its block when %s: add_file still writes the leaders and the other blocks around it, so that file has no %s block on the tape"
                              % (name, cd, "name-file" if btype == T.BLOCK_NAMEFILE else "end-of-file"), where)
                else:
                    c.ok("%s[%s]" % (name, cd), "emits nothing", where, nontrivial=False)
                continue
            npaths += 1
            site = "%s[%s]" % (name, cd)
            varying = [x for x in _walk_items(flat) if x[0] == "rep" and x[2] is None and re.search(r"\.encode\(|\.split\(|\.strip\(", x[1])]
            if varying and btype == T.BLOCK_NAMEFILE:
                c.finding(site + ":length", "a header field is written by a loop whose length depends on the data (%s)" % varying[0][1][:50],
                          "%s writes part of the fixed 15-byte name-file payload with a loop over %s: the number of bytes varies with the content (a non-ASCII character encodes to several bytes), "
                          "so the payload no longer matches the length byte" % (name, varying[0][1]), where)
                continue
            # helpers of the class or its bases that write into the buffer and are not among the modelled writers (append_bytes(values) in the container base)
            helper_names = [mn_ for cn_ in repo.ancestors(CLS) if cn_ in repo.classes for mn_, mf_ in repo.classes[cn_].methods.items()
                            if mn_ not in methods and any(isinstance(y, ast.Call) and isinstance(y.func, ast.Attribute) and y.func.attr in ("append", "extend", "insert") and U(y.func.value) == "self.buffer"
                                                          for y in ast.walk(mf_.node))]
            unknown = [x for x in _walk_items(flat) if x[0] == "other" and re.search(r"self\.buffer|%s" % "|".join([re.escape(a_) for a_ in _acc_vars(methods)] + [r"self\.%s\(" % re.escape(h_) for h_ in helper_names]), x[1])]
            if unknown:
                c.undecided(site, "writer uses an idiom the extractor does not model: %s" % unknown[0][1][:50], "", where)
                continue
            for it in flat:
                if it[0] == "paramassign":
                    benign = re.fullmatch(r"\$\d+(\.(upper|strip)\(\)|\.ljust\(\d+(, '[ \\x00]')?\)|\[:(\d+)\])*", it[2]) is not None
                    m8 = re.findall(r"\[:(\d+)\]", it[2])
                    if benign and all(int(k) >= 8 for k in m8):
                        continue
                    c.finding(site + ":source", "the value written is first rewritten: %s = %s" % (it[1], it[2][:40]),
                              "%s rewrites its input before writing it (%s = %s): the block then carries the rewritten value, not the file's own field" % (name, it[1], it[2][:60]),
                              "%s:%d" % (repo.cls(CLS).module.rel, it[3].lineno))
            flat = [x for x in flat if x[0] != "paramassign"]
            _, once = let_names(flat)
            flat = apply_rebinds(flat)
            frame, accs, tail, closed = _frame(flat)
            if not closed or len(frame) < 6:
                c.undecided(site, "frame-not-recognised", "could not find `checksum byte, closing byte` in the emitted sequence", where)
                continue
            hdr = frame[:4]
            if any(h[0] != "byte" for h in hdr):
                c.undecided(site, "frame-header-not-bytes", "", where)
                continue
            c.check(hdr[0][2] == T.SYNC[0] and hdr[1][2] == T.SYNC[1], site + ":sync", "55 3C", "sync=%s %s" % (hdr[0][1], hdr[1][1]),
                    "%s: block does not start with 55 3C" % name, where)
            c.check(hdr[2][2] in (T.BLOCK_NAMEFILE, T.BLOCK_DATA, T.BLOCK_EOF), site + ":type", "type=%s" % hdr[2][1], "type=%s" % hdr[2][1],
                    "%s: block type byte %s is not 00/01/FF" % (name, hdr[2][1]), where)
            end = frame[-1]
            c.check(end[0] == "byte" and end[2] == T.TRAILER, site + ":trailer", "55", "trailer=%s" % (end[1],),
                    "%s: block does not end with 55" % name, where)
            ckb = frame[-2]
            m = re.fullmatch(r"\(?(\w+)\)? (&|%) (\w+)", ckb[1])
            mask_ok = False
            if m:
                try:
                    k = int(m.group(3), 0)
                    mask_ok = (m.group(2) == "&" and k == 0xFF) or (m.group(2) == "%" and k == 256)
                except ValueError:
                    pass
            if m and not mask_ok:
                c.finding(site + ":ckbyte", "checksum byte is %s" % ckb[1], "%s: the checksum byte must be the sum modulo 256, it is %s" % (name, ckb[1]), where)
            elif mask_ok:
                c.ok(site + ":ckbyte", "sum mod 256", where)
            else:
                c.undecided(site + ":ckbyte", "checksum-byte-form-unknown", ckb[1], where)
            # CAS-2 pairing
            ok, why = _pair(frame, accs)
            if ok is None:
                c.undecided(site + ":pairing", "pairing-not-decidable", why, where)
            elif ok:
                c.ok(site + ":pairing", "checksum = type + length + payload (%s)" % why, where)
            elif any(re.search(r"(?<![\w.$])%s\b" % re.escape(nm), why) for nm in once):
                c.undecided(site + ":pairing", "pairing-involves-a-local-alias", why[:120], where)
            else:
                c.finding(site + ":pairing", "checksum terms differ from bytes written",
                          "%s [%s]: %s" % (name, cd, why), where)
            # CAS-3 length byte vs payload
            payload = frame[4:-2]
            lenb = hdr[3]
            n, sym = count_bytes(payload)
            if n is None:
                c.undecided(site + ":length", "payload-count-unknown", "", where)
            elif not sym:
                c.check(lenb[2] == n, site + ":length", "len=%d=payload" % n, "len byte %s but %d payload bytes" % (lenb[1], n),
                        "%s [%s]: length byte is %s, %d payload bytes follow" % (name, cd, lenb[1], n), where)
                if lenb[2] is not None:
                    c.check(lenb[2] <= T.MAX_DATA, site + ":maxlen", "<=255", "len %d > 255" % lenb[2], "%s: block longer than 255 bytes" % name, where)
            elif any(str(s_[0]).startswith("?") for s_ in sym):
                c.undecided(site + ":length", "payload-loop-count-not-modelled", "%s" % [s_[0] for s_ in sym], where)
            else:
                good = n == 0 and len(sym) == 1 and sym[0][1] == 1 and sym[0][0] == lenb[1]
                c.check(good, site + ":length", "len byte = loop count (%s)" % lenb[1], "len byte %s but payload is %s" % (lenb[1], ["%s x %d" % s for s in sym] + ([n] if n else [])),
                        "%s [%s]: length byte is %s but the payload loop writes %s byte(s)" % (name, cd, lenb[1], " + ".join("%s*%d" % s for s in sym)), where)
                # bound of the symbolic length from the path condition
                bound = None
                for ctext, truth in conds:
                    mm = re.fullmatch(r"%s (<|<=) (\w+)" % re.escape(lenb[1]), ctext)
                    if mm and truth:
                        try:
                            k = int(mm.group(2), 0)
                            bound = k - 1 if mm.group(1) == "<" else k
                        except ValueError:
                            pass
                if bound is None:
                    c.undecided(site + ":maxlen", "no-recognised-bound-on-%s" % lenb[1], "", where)
                else:
                    c.check(bound <= T.MAX_DATA, site + ":maxlen", "%s<=%d" % (lenb[1], bound), "%s may reach %d > 255" % (lenb[1], bound),
                            "%s: the length byte %s may be as large as %d, which does not fit a byte/the 255-byte block limit" % (name, lenb[1], bound), where)
            # block specific content
            if btype == T.BLOCK_NAMEFILE:
                _namefile_payload(c, name, site, payload, where, fn)
            elif btype == T.BLOCK_DATA:
                _data_payload(c, name, site, conds, lenb, payload, tail, where)
            elif btype == T.BLOCK_EOF:
                c.check(lenb[2] == 0 and not payload, site + ":eof", "empty", "EOF block carries %s payload item(s)" % len(payload),
                        "%s: EOF block must have length 0" % name, where)
                ck = frame[-2]
        c.floor("emitting paths of %s" % name, npaths, 1)
    # constant-only frames (EOF written as literals): checksum constant must match
    for name, btype in sorted(writers.items()):
        its = items[name]
        if all(x[0] == "byte" and x[2] is not None for x in its) and len(its) >= 6:
            vals = [x[2] for x in its]
            want = sum(vals[2:-2]) & 0xFF
            fn = repo.method(CLS, name)
            c.check(vals[-2] == want and vals[-1] == T.TRAILER and vals[3] == len(vals) - 6, "%s:literal" % name,
                    "literal frame %s" % " ".join("%02X" % v for v in vals),
                    "literal frame %s (checksum should be %02X, length %02X)" % (" ".join("%02X" % v for v in vals), want, len(vals) - 6),
                    "%s writes a literal frame whose checksum/length/trailer is wrong" % name, repo.loc(fn, fn.node))


def _local_branches(fn, local):
    """the expressions a local of the writer is bound to: [(test text or None, expression text with the file parameter as $1, folded constant or None)]; None when it is not
    bound by plain assignments of the function itself"""
    if fn is None or not re.fullmatch(r"[A-Za-z_]\w*", local or ""):
        return None
    params = [p_ for p_ in fn.params if p_ != "self"]
    out = []
    for n in ast.walk(fn.node):
        if isinstance(n, ast.Assign) and len(n.targets) == 1 and isinstance(n.targets[0], ast.Name) and n.targets[0].id == local:
            alts = [(U(n.value.test), n.value.body), ("not (%s)" % U(n.value.test), n.value.orelse)] if isinstance(n.value, ast.IfExp) else [(None, n.value)]
            for t_, e_ in alts:
                txt = U(e_)
                if params:
                    txt = re.sub(r"\b%s\b" % re.escape(params[0]), "$1", txt)
                out.append((t_, txt, try_fold(e_)))
        elif isinstance(n, (ast.AugAssign, ast.For, ast.With)) and any(isinstance(x, ast.Name) and x.id == local and isinstance(x.ctx, ast.Store) for x in ast.walk(n)):
            return None
    return out or None


def _namefile_payload(c, name, site, payload, where, fn=None):
    # 8-byte name then the seven header fields in order
    flat = []
    for it in payload:
        if it[0] == "rep":
            flat.append(("rep", it[2], it))
        elif it[0] == "byte":
            flat.append(("byte", it))
    if not flat or flat[0][0] != "rep":
        # name written as 8 single bytes?
        c.undecided(site + ":name", "name-field-shape-unknown", "", where)
        return
    if not isinstance(flat[0][1], int):
        c.undecided(site + ":name", "name-loop-count-not-modelled", "%s" % (flat[0][1],), where)
        return
    c.check(flat[0][1] == 8, site + ":name", "8 name bytes", "name loop writes %s bytes" % flat[0][1], "%s: the file name field is not 8 bytes" % name, where)
    rep = flat[0][2]
    lv = rep[4]
    srcs = set()
    for conds_, fl in paths(rep[3]):
        for x in fl:
            if x[0] == "byte" and x[2] is None:
                srcs.add(x[1])
    # whether position i carries a character or padding depends on the length of the name only: a test on the character itself replaces
    # characters of the name by padding
    for conds_, fl in paths(rep[3]):
        for ctext, truth in conds_:
            if lv is not None and re.search(r"\[%s\]" % re.escape(lv), ctext) and re.search(r"\.(isalnum|isalpha|isdigit|isupper|islower|isprintable|isascii|isspace)\(\)| in | not in |[<>]=? *'", ctext):
                c.finding(site + ":name-filter", "characters of the name are written only if %s" % ctext[:60],
                          "%s: position i of the name field holds name[i] only when `%s`; other characters of the name are replaced by padding, so the name on tape differs from "
                          "the name given" % (name, ctext[:80]), where)
                break
        else:
            continue
        break
    goodsrc = lv is not None and all(re.fullmatch(r"ord\(\$1\.name\[%s\]\)" % re.escape(lv), t) for t in srcs) and srcs
    if goodsrc:
        c.ok(site + ":name-source", "name byte i = name[i] (padded)", where)
    elif srcs and all(re.fullmatch(r"ord\(\$1\.name\[[^\]]+\]\)", t) for t in srcs):
        c.finding(site + ":name-source", "name bytes taken from %s" % sorted(srcs), "%s: the name field is filled from %s, not character i of the file name" % (name, sorted(srcs)), where)
    else:
        c.undecided(site + ":name-source", "name-byte-expression-not-recognised", str(sorted(srcs))[:80], where)
    rest = [x[1] for x in flat[1:] if x[0] == "byte"]
    want = ["file_type", "data_type", "gap_flag", "load_hi", "load_lo", "exec_hi", "exec_lo"]
    more_reps = [x for x in flat[1:] if x[0] == "rep"]
    if len(rest) != len(want) and more_reps:
        # bytes written by a further loop (over a generator, a list of fields ...): their number is not known here
        c.undecided(site + ":fields", "header-bytes-written-by-a-loop", "%d single bytes and %d loop(s) after the name" % (len(rest), len(more_reps)), where)
        return
    if len(rest) != len(want):
        c.finding(site + ":fields", "%d header bytes after the name (format has 7)" % len(rest), "%s: name-file block has %d bytes after the name, the format has 7" % (name, len(rest)), where)
        return
    for pos, (b, w) in enumerate(zip(rest, want)):
        f = _field(b[1])
        s2 = "%s:field%d(%s)" % (site, 12 + pos, w)
        if w == "gap_flag" and b[2] is not None:
            c.check(b[2] in (0x00, 0xFF), s2, "const %#04x" % b[2], "gap flag constant %#04x" % b[2], "%s: gap flag must be 00 or FF" % name, where)
        elif f == w:
            c.ok(s2, b[1], where)
        elif f is not None or b[2] is not None:
            c.finding(s2, "carries %s" % (f or "constant %#04x" % b[2]),
                      "%s: header byte %d must be the %s, the code writes %s" % (name, 12 + pos, w, b[1]), where)
        else:
            # the byte comes from a local: judged by what the local is bound to, branch by branch
            br = _local_branches(fn, b[1])
            devs = [(t_, x_, k_) for t_, x_, k_ in (br or []) if _field(x_) != w]
            if br and not devs:
                c.ok(s2, "%s = %s" % (b[1], br[0][1]), where)
            elif br and all(_field(x_) is not None or isinstance(k_, int) for t_, x_, k_ in devs):
                t_, x_, k_ = devs[0]
                what = ("the constant %#04x" % k_) if isinstance(k_, int) else _field(x_)
                c.finding(s2, "carries %s%s" % (what, " when %s" % t_[:50] if t_ else ""),
                          "%s: header byte %d must be the file's %s; the code writes `%s`, which is %s%s - a file whose %s differs is read back changed"
                          % (name, 12 + pos, w, b[1], what, " when `%s`" % t_ if t_ else "", w), where)
            else:
                c.undecided(s2, "expression-not-classified", b[1], where)


def _data_payload(c, name, site, conds, lenb, payload, tail, where):
    reps = [x for x in payload if x[0] == "rep"]
    if len(reps) != 1 or len(payload) != 1:
        c.undecided(site + ":data", "payload-shape-unknown", "", where)
        return
    rep = reps[0]
    lv = rep[4]
    inner = [x for x in rep[3] if x[0] == "byte"]
    good = len(inner) == 1 and lv is not None and re.fullmatch(r"\$1\[%s\]" % re.escape(lv), inner[0][1]) is not None
    c.check(good, site + ":data", "payload byte i = data[i]", "payload byte is %s" % (inner[0][1] if inner else "?"),
            "%s: payload byte i must be data[i] of the bytes passed in, the loop writes %s" % (name, inner[0][1] if inner else "nothing"), where)
    # continuation: when the whole input may be longer than the count, the rest must be passed on, starting at count
    rec = [x for x in tail if x[0] == "call" and x[1] == name]
    whole = rep[1] == "len($1)"
    if whole:
        c.ok(site + ":continuation", "all of the input written on this arm", where)
    else:
        if not rec:
            c.finding(site + ":continuation", "no continuation after a partial block",
                      "%s: this arm writes %s bytes of a longer input and does not continue with the rest" % (name, rep[1]), where)
        else:
            arg = rec[0][2][0] if rec[0][2] else ""
            m = re.fullmatch(r"\$1\[(\w+):\]", arg)
            k = None
            if m:
                try:
                    k = int(m.group(1), 0)
                except ValueError:
                    pass
            if k is None:
                c.undecided(site + ":continuation", "continuation-argument-not-a-slice", arg, where)
            else:
                c.check(k == rep[2], site + ":continuation", "continues at %d = bytes written" % k, "continues at %s after writing %s bytes" % (k, rep[1]),
                        "%s: wrote %s bytes of the input but continues at offset %d" % (name, rep[1], k), where)
        # the loop must stay inside the input: the arm's condition must imply len >= count
        ok_bound = None
        for ctext, truth in conds:
            mm = re.fullmatch(r"len\(\$1\) (<|<=) (\w+)", ctext)
            if mm and not truth:
                try:
                    kk = int(mm.group(2), 0)
                    least = kk if mm.group(1) == "<" else kk + 1
                    ok_bound = least >= (rep[2] or 0)
                except ValueError:
                    pass
        if ok_bound is None:
            c.undecided(site + ":bounds", "no-recognised-lower-bound", "", where)
        else:
            c.check(ok_bound, site + ":bounds", "len >= count on this arm", "arm may run with fewer than %s input bytes" % rep[1],
                    "%s: the arm that writes %s bytes can be taken with fewer input bytes" % (name, rep[1]), where)


def cas4(ctx, c):
    """CAS-4 file order in add_file on every path; fillers are leaders/blanks; append-only stores."""
    repo = ctx.repo
    methods, items = _extract(ctx)
    writers = _block_writers(ctx)
    fn = repo.method(CLS, "add_file")
    where = repo.loc(fn, fn.node)

    def classify(it):
        if it[0] == "call":
            callee = items.get(it[1], [])
            if it[1] in writers:
                return ("block", writers[it[1]], it[1], it[2])
            if _only_const_bytes(callee, T.LEADER_BYTE):
                return ("leader", it[1])
            if _only_const_bytes(callee, 0x00):
                return ("blank", it[1])
            return ("other", it[1])
        if it[0] == "rep" and _only_const_bytes([it], T.LEADER_BYTE):
            return ("leader", "inline")
        if it[0] == "rep" and _only_const_bytes([it], 0x00):
            return ("blank", "inline")
        if it[0] in ("byte", "rep"):
            return ("raw", it[1])
        if it[0] == "ret":
            return None
        if it[0] == "rebind":
            return ("rebind", it[1], sorted(it[2]))
        if it[0] in ("other", "let") and len(it) > 2 and isinstance(it[-1], ast.Assign) and isinstance(it[-1].targets[0], ast.Name) and not any(
                isinstance(x, ast.Call) and isinstance(x.func, ast.Attribute) and x.func.attr in ("append", "extend", "insert", "pop", "remove", "clear") for x in ast.walk(it[-1])):
            return None     # a local computed from reads only: no bytes written
        return ("other", it[0])
    npaths = 0
    for conds, flat in paths(items["add_file"]):
        npaths += 1
        cd = ", ".join("%s=%s" % kv for kv in conds) or "always"
        seq = [x for x in (classify(it) for it in flat) if x is not None]
        site = "add_file[%s]" % cd
        blocks = [s_[1] for s_ in seq if s_[0] == "block"]
        for s_ in [x for x in seq if x[0] == "rebind"]:
            c.finding(site + ":file-altered", "the file's %s is replaced before the file is written" % ", ".join(s_[2]),
                      "add_file replaces the %s of the file it was given (when %s) and writes the altered copy: the header on tape no longer carries the file's own value"
                      % (", ".join(s_[2]), cd), where)
        seq = [x for x in seq if x[0] != "rebind"]
        if any(s_[0] in ("other", "raw") for s_ in seq) or len(writers) < 3:
            c.undecided(site + ":order", "add_file's steps are not all recognised as block writers / fillers", str([s_[:3] for s_ in seq])[:160], where)
            continue
        c.check(blocks == [T.BLOCK_NAMEFILE, T.BLOCK_DATA, T.BLOCK_EOF], site + ":order", "name-file, data, EOF", "block order %s" % ["%02X" % b_ for b_ in blocks],
                "add_file writes blocks in order %s, the format is name-file (00), data (01), EOF (FF)" % ["%02X" % b_ for b_ in blocks], where)
        # a leader in front of the name-file block and in front of whatever follows it (data blocks or, for an empty file, the EOF block)
        idx_n = next((i for i, s_ in enumerate(seq) if s_[0] == "block" and s_[1] == T.BLOCK_NAMEFILE), None)
        if idx_n is not None:
            c.check(any(s_[0] == "leader" for s_ in seq[:idx_n]), site + ":leader-before-name-file", "leader present", "no leader before the name-file block",
                    "add_file writes no $55 leader before the name-file block (when %s)" % cd, where)
            nxt = next((i for i, s_ in enumerate(seq) if i > idx_n and s_[0] == "block"), None)
            if nxt is not None:
                c.check(any(s_[0] == "leader" for s_ in seq[idx_n + 1:nxt]), site + ":leader-after-name-file", "leader present", "no leader between the name-file block and the next block",
                        "add_file writes no $55 leader between the name-file block and the block that follows it (when %s): the file's blocks must each be preceded by a leader" % cd, where)
        for s_ in seq:
            if s_[0] == "block" and s_[1] == T.BLOCK_NAMEFILE:
                c.check(s_[3] == ["$1"], site + ":header-arg", "header(file)", "header(%s)" % s_[3], "append_header is not given the file being added", where)
            if s_[0] == "block" and s_[1] == T.BLOCK_DATA:
                c.check(s_[3][:1] == ["$1.data"], site + ":data-arg", "data blocks(file.data)", "data blocks(%s)" % s_[3], "the data blocks are not written from the file's data", where)
    c.floor("add_file paths", npaths, 1)
    # append-only: no store into / removal from self.buffer in the writer methods
    n = 0
    for mname, mnode in methods.items():
        for node in ast.walk(mnode):
            bad = None
            if isinstance(node, (ast.Assign, ast.AugAssign, ast.Delete)):
                tg = node.targets if isinstance(node, (ast.Assign, ast.Delete)) else [node.target]
                for t in tg:
                    if isinstance(t, ast.Subscript) and U(t.value) == "self.buffer":
                        bad = U(node)
                    if isinstance(t, ast.Attribute) and U(t) == "self.buffer" and not isinstance(node, ast.AugAssign):
                        bad = U(node)
            if isinstance(node, ast.Call) and isinstance(node.func, ast.Attribute) and U(node.func.value) == "self.buffer":
                n += 1
                if node.func.attr in ("insert", "pop", "remove", "clear", "reverse", "sort", "__setitem__", "__delitem__"):
                    bad = U(node)
            if bad and mname != "__init__":
                c.finding("%s:append-only" % mname, "non-append store: %s" % bad[:50], "CassetteFile.%s modifies the tape buffer other than by appending: %s" % (mname, bad[:80]),
                          "%s:%d" % (repo.cls(CLS).module.rel, node.lineno))
    c.ok("CassetteFile:append-only", "%d buffer calls, all append/extend or reads" % n, where)
    c.floor("buffer calls in CassetteFile", n, 4)


def cas6(ctx, c):
    """CAS-6 sentinel conflict: the writer can emit a file with no data block while the reader treats empty data as end of tape."""
    repo = ctx.repo
    methods, items = _extract(ctx)
    writers = _block_writers(ctx)
    data_writer = next((n for n, t in writers.items() if t == T.BLOCK_DATA), None)
    if data_writer is None:
        c.undecided("read_file/data-writer", "data block writer not recognised", "")
        return
    empty_paths = [conds for conds, flat in paths(_inline(items, items[data_writer], data_writer)) if not any(x[0] == "byte" for x in flat)]
    rf = repo.method(CLS, "read_file")
    falsy_none = None
    for n in ast.walk(rf.node):
        if isinstance(n, ast.If) and isinstance(n.test, ast.UnaryOp) and isinstance(n.test.op, ast.Not) and isinstance(n.test.operand, ast.Name):
            rv = n.body[0].value if n.body and isinstance(n.body[0], ast.Return) else None
            if isinstance(rv, ast.Tuple) and rv.elts:
                rv = rv.elts[0]
            if isinstance(rv, ast.Constant) and rv.value is None:
                # which variable? the one assigned from the block reader
                falsy_none = n
    where = repo.loc(rf, falsy_none or rf.node)
    if empty_paths and falsy_none is not None and U(falsy_none.test.operand) != "pointer":
        c.finding("read_file/%s" % data_writer, "empty data written without a data block, read back as end-of-tape",
                  "a file with no data is written as name-file + EOF (%s emits nothing when %s), and read_file returns None (no more files) "
                  "when the collected data is empty: the empty file and every file after it vanish from the listing"
                  % (data_writer, dict(empty_paths[0])), where)
    else:
        c.ok("read_file/%s" % data_writer, "no sentinel conflict", where)


def listing_collection(c, repo, cls):
    """list_files returns one entry per file met, in the order met: an accumulator keyed by name (dict / set) merges files
    that share a name and loses all but one of them"""
    lf = repo.method(cls, "list_files")
    where = repo.loc(lf, lf.node)
    kinds = {}
    for n in ast.walk(lf.node):
        if isinstance(n, ast.Assign) and len(n.targets) == 1 and isinstance(n.targets[0], ast.Name):
            v = n.value
            if isinstance(v, ast.List) and not v.elts:
                kinds[n.targets[0].id] = "list"
            elif (isinstance(v, ast.Dict) and not v.keys) or (isinstance(v, ast.Call) and U(v.func) in ("dict", "set", "OrderedDict", "collections.OrderedDict") and not v.args):
                kinds[n.targets[0].id] = "keyed"
    keyed_stores = [n for n in ast.walk(lf.node) if isinstance(n, ast.Assign) and isinstance(n.targets[0], ast.Subscript)
                    and kinds.get(U(n.targets[0].value)) == "keyed" and ".name" in U(n.targets[0].slice)]
    keyed_adds = [n for n in ast.walk(lf.node) if isinstance(n, ast.Call) and isinstance(n.func, ast.Attribute) and n.func.attr == "add"
                  and kinds.get(U(n.func.value)) == "keyed"]
    appends = [n for n in ast.walk(lf.node) if isinstance(n, ast.Call) and isinstance(n.func, ast.Attribute) and n.func.attr == "append"
               and kinds.get(U(n.func.value)) == "list"]
    site = "%s.list_files:collection" % cls
    if keyed_stores or keyed_adds:
        x = (keyed_stores or keyed_adds)[0]
        c.finding(site, "files collected in a mapping keyed by name", "%s.list_files collects the files with `%s`: two files of the same name on the image become one entry, "
                  "the earlier one is not listed or extracted" % (cls, U(x)[:70]), repo.loc(lf, x))
    elif appends:
        c.ok(site, "one list entry per file met", where)


def cas6b(ctx, c):
    cas6(ctx, c)
    listing_collection(c, ctx.repo, CLS)


def cas1_addr(ctx, c):
    """the two addresses of the name-file block are two bytes each whatever the value's own width: a rendering by .hex() has as many digits as the value's width tag
    says (two for `ORG $80`, none for a program without ORG)"""
    repo = ctx.repo
    C = repo.cls(CLS)
    ah = C.methods.get("append_header")
    if ah is None:
        return
    from ..inline import flatten as _fla
    flat = _fla(repo, ah, depth=2)
    aliases = set()
    for n in ast.walk(flat):
        if isinstance(n, ast.For) and re.search(r"load_addr|exec_addr", U(n.iter)) and isinstance(n.target, ast.Name):
            aliases.add(n.target.id)
        if isinstance(n, ast.Assign) and re.search(r"\.(load_addr|exec_addr)$", U(n.value)) and isinstance(n.targets[0], ast.Name):
            aliases.add(n.targets[0].id)
    rendered = [n for n in ast.walk(flat) if isinstance(n, ast.Call) and isinstance(n.func, ast.Attribute) and n.func.attr in ("hex", "ascii", "__str__")
                and (re.search(r"load_addr|exec_addr", U(n.func.value)) or (isinstance(n.func.value, ast.Name) and n.func.value.id in aliases))]
    if rendered:
        c.finding("append_header:address-bytes", "an address is stored through its own rendering (%s)" % U(rendered[0])[:40],
                  "append_header builds header bytes from `%s`: that text has as many digits as the value's width tag (two for an origin written $80, none for a program without ORG), "
                  "so the block is shorter than 15 bytes and its addresses are wrong; high_byte()/low_byte() always give the two bytes" % U(rendered[0])[:60], repo.loc(ah, rendered[0]))
    else:
        c.ok("append_header:address-bytes", "addresses are not taken from a rendering of their own width", repo.loc(ah, ah.node))


def cas1_literals(ctx, c):
    """every block written as a literal list (55 3C type len payload... checksum 55) is a well-formed frame"""
    repo = ctx.repo
    C = repo.cls(CLS)
    n_ = 0
    for f in C.methods.values():
        for x in ast.walk(f.node):
            if isinstance(x, (ast.List, ast.Tuple)) and len(x.elts) >= 6:
                vals = [try_fold(e_, ctx.env) for e_ in x.elts]
                if not all(isinstance(v_, int) and not isinstance(v_, bool) for v_ in vals) or vals[:2] != [T.SYNC[0], T.SYNC[1]]:
                    continue
                n_ += 1
                want = sum(vals[2:-2]) & 0xFF
                good = vals[-1] == T.TRAILER and vals[3] == len(vals) - 6 and vals[-2] == want
                c.check(good, "%s:literal-frame" % f.name, "literal frame %s" % " ".join("%02X" % v_ for v_ in vals),
                        "literal frame %s (checksum should be %02X, length %02X, trailer 55)" % (" ".join("%02X" % v_ for v_ in vals), want, len(vals) - 6),
                        "%s writes the literal block %s: a block is 55 3C type length payload checksum 55 with checksum = (type + length + payload) mod 256 = %02X and length = %d"
                        % (f.name, " ".join("%02X" % v_ for v_ in vals), want, len(vals) - 6), repo.loc(f, x))
    if not n_:
        c.ok("literal-frames", "no block is written as a literal list", "")


def cas1_name(ctx, c):
    """append_name folded for sample names, two files in a row on one container: each writes its own 8 bytes (the name as given, cut or blank padded) and returns their sum"""
    from .wid import fold_constructor, fold_method
    from ..consteval import NotConst, Raised
    repo = ctx.repo
    C = repo.cls(CLS)
    an = C.methods.get("append_name")
    if an is None:
        return
    where = repo.loc(an, an.node)
    try:
        st = fold_constructor(ctx, CLS, {})
        selfenv = {k: v for k, v in st.items() if k.startswith("self.")}
    except Exception:
        selfenv = {}
    if not isinstance(selfenv.get("self.buffer"), list):
        selfenv["self.buffer"] = []
    bad, und = None, None
    for name in ("ABCDEFGH", "XY", " PROG", "LONGNAMEXYZ", "", "a b", "PROG    "):
        before = len(selfenv["self.buffer"])
        try:
            ck = fold_method(ctx, CLS, "append_name", selfenv, (name,))
        except Raised as e:
            bad = bad or (name, "raises %s" % e.name, None)
            continue
        except (NotConst, Exception) as e:
            und = und or "%s for %r" % (str(e)[:60], name)
            break
        got = selfenv["self.buffer"][before:]
        want = [ord(ch) for ch in name.ljust(8)[:8]]
        if got != want or ck != sum(want):
            bad = bad or (name, got, ck)
    if und:
        c.undecided("append_name:bytes:name", "not-foldable", und, where)
    elif bad:
        c.finding("append_name:bytes:name", "the name %r is written as %s" % (bad[0], bad[1] if not isinstance(bad[1], list) else " ".join("%02X" % (x if isinstance(x, int) else 0) for x in bad[1])),
                  "append_name, folded for the names of several files written one after the other, writes %s for %r (checksum term %s); the field is the name as given, cut to 8 characters or "
                  "padded with blanks, independent of the files written before" % (bad[1], bad[0], bad[2]), where)
    else:
        c.ok("append_name:bytes:name", "8 name bytes and their sum for 7 names in a row", where)


def cas1_sizeguard(ctx, c):
    """no file of a representable length (0..65535 bytes) is refused by the tape writer; nor is a short buffer refused by the reader as 'too short to hold a file'"""
    import copy
    from ..consteval import fold as _fsg, NotConst as _Nsg
    repo = ctx.repo
    C = repo.cls(CLS)

    class _LenSub(ast.NodeTransformer):
        def visit_Call(self, node):
            self.generic_visit(node)
            if U(node.func) == "len" and node.args and re.search(r"\.data$|\.buffer$|^self\.buffer$", U(node.args[0])):
                return ast.copy_location(ast.Name(id="__len", ctx=ast.Load()), node)
            return node
    for mname, lens, what in (("add_file", (0, 1, 255, 65534, 65535), "a file of %d bytes is refused"), ("add_files", (0, 1, 255, 65534, 65535), "a file of %d bytes is refused"),
                              ("list_files", (27, 100, 300, 538), "a tape stream of %d bytes is not scanned")):
        f = C.methods.get(mname)
        if f is None:
            continue
        for n in ast.walk(f.node):
            if isinstance(n, ast.If) and n.body and isinstance(n.body[-1], (ast.Raise, ast.Return)) and "len(" in U(n.test):
                names = {x.id for x in ast.walk(n.test) if isinstance(x, ast.Name)} - {"len"}
                t2 = _LenSub().visit(copy.deepcopy(n.test))
                try:
                    hit = [L for L in lens if _fsg(t2, dict(ctx.env, __len=L))]
                except _Nsg:
                    continue
                if hit:
                    c.finding("%s:size:length" % mname, what % hit[-1] + " (%s)" % U(n.test)[:40],
                              "CassetteFile.%s stops when `%s`, which holds for a length of %d: %s" % (mname, U(n.test)[:60], hit[-1],
                              "a tape file may be 0..65535 bytes long" if mname != "list_files" else "leaders may have any length, so a well-formed stream holding small files can be that short"),
                              repo.loc(f, n))


def cas1_gaps(ctx, c):
    """the name-file block says 'no gaps' (flag 00) and the block writer's own recursion does not carry a gap request on: nobody asks for gaps"""
    repo = ctx.repo
    C = repo.cls(CLS)
    ad = C.methods.get("append_data_blocks")
    if ad is None:
        return
    params = [p_ for p_ in ad.params if p_ != "self"]
    gp = next((p_ for p_ in params if "gap" in p_.lower()), None)
    if gp is None:
        return
    pos = params.index(gp)
    rec = [x for x in ast.walk(ad.node) if isinstance(x, ast.Call) and U(x.func).endswith("append_data_blocks")]
    carries = all(len(x.args) > pos or any(k.arg == gp for k in x.keywords) for x in rec) if rec else True
    asked = []
    for f in repo.all_funcs():
        if f is ad:
            continue
        for x in ast.walk(f.node):
            if isinstance(x, ast.Call) and isinstance(x.func, ast.Attribute) and x.func.attr == "append_data_blocks":
                a_ = x.args[pos] if len(x.args) > pos else next((k.value for k in x.keywords if k.arg == gp), None)
                if a_ is not None and try_fold(a_, ctx.env, default="?") is not False:
                    asked.append((f, x, a_))
    if asked and not carries:
        f_, x_, a_ = asked[0]
        c.finding("append_data_blocks:gaps:continuation", "%s asks for gaps (%s) but the writer's recursion drops the request" % (f_.q, U(a_)[:30]),
                  "%s calls append_data_blocks with %s=%s, and append_data_blocks calls itself for the rest of the data without it: only the first block boundary gets a blank and a leader, "
                  "while the name-file block written before it carries the gap flag 00 - the stream is neither a gapped nor an ungapped file" % (f_.q, gp, U(a_)[:40]), repo.loc(f_, x_))
    else:
        c.ok("append_data_blocks:gaps:continuation", "no caller asks for gaps" if not asked else "the request is carried through the recursion", repo.loc(ad, ad.node))


def cas1_enum(ctx, c):
    """the writer stores whatever type and flags a file has: converting a field through an Enum class raises ValueError for every value the class has no member for"""
    repo = ctx.repo
    C = repo.cls(CLS)
    for f in C.methods.values():
        if not f.name.startswith(("append_", "add_")):
            continue
        for x in ast.walk(f.node):
            if isinstance(x, ast.Call) and isinstance(x.func, ast.Name) and x.func.id in repo.classes and len(x.args) == 1 and re.search(r"\.(type|data_type|gaps)\.int$", U(x.args[0])):
                E = repo.classes[x.func.id]
                if not any(b_.split(".")[-1] in ("Enum", "IntEnum") for b_ in E.bases):
                    continue
                members = {try_fold(v_, ctx.env) for v_ in E.assigns.values()}
                domain = (0, 1, 2, 3) if re.search(r"(?<!data_)type\.int$", U(x.args[0])) else (0, 0xFF)
                missing = [v_ for v_ in domain if v_ not in members]
                if missing:
                    c.finding("%s:enum-conversion:fields" % f.name, "%s(%s) has no member for %s" % (x.func.id, U(x.args[0])[:30], ", ".join("%#04x" % v_ for v_ in missing)),
                              "CassetteFile.%s converts `%s` through %s, whose members are %s: a file whose field is %s (file type 3 is text, which the disk side and CoCoFile know) raises "
                              "ValueError while the tape is being written" % (f.name, U(x.args[0])[:40], x.func.id, sorted(m_ for m_ in members if isinstance(m_, int)), ", ".join(str(v_) for v_ in missing)),
                              repo.loc(f, x))


def cas1_whole(ctx, c):
    """CassetteFile.add_file evaluated in the length domain: the data handed to append_data_blocks, over all calls, is the file's data once, in order."""
    from ..concrete import Seq, Obj, Desc, run_concrete
    repo = ctx.repo
    C = repo.cls(CLS)
    af = C.methods.get("add_file")
    if af is None:
        return
    where = repo.loc(af, af.node)
    p_file = [p for p in af.params if p != "self"][0]
    bad, und = None, None
    # the leaf writers are described, every other helper of the class (append_section(...), _append_preamble ...) is interpreted
    workers = tuple(n for n in C.methods if n in ("append_leader", "append_blank", "append_header", "append_data_blocks", "append_eof", "append_name", "append_gap"))

    def resolver(name):
        f_ = repo.lookup(C, name)
        return f_.node if f_ is not None else None
    for L in (0, 1, 254, 255, 256, 509, 510, 511, 765, 1000):
        env = dict(ctx.env)
        fobj = Obj("CoCoFile", label="<file>")
        fobj.attrs["data"] = Seq(L, 0, "data")
        env[p_file] = fobj
        events, notes = [], []
        end = run_concrete(body_without_doc(af.node), env, events, notes, workers=workers, resolver=resolver)
        if notes or (end or "").startswith("raise"):
            und = und or ("%s (length %d)" % ("; ".join(sorted(set(notes)))[:80] or end, L))
            continue
        spans = []
        for e in events:
            if e[0] == "call" and e[2] == "append_data_blocks" and e[4]:
                a0 = e[4][0]
                if isinstance(a0, Seq) and a0.name == "data":
                    spans.append((a0.start, a0.start + a0.length))
                else:
                    und = und or "append_data_blocks receives %s" % (e[3][0] if e[3] else "?")
        if und:
            continue
        pos = 0
        okl = True
        for a_, b_ in spans:
            if a_ != pos and not (a_ == b_):
                okl = False
            pos = max(pos, b_) if a_ == pos else pos
        if not okl or pos != L or sum(b_ - a_ for a_, b_ in spans) != L:
            bad = bad or (L, spans)
    if und:
        c.undecided("add_file:whole:data", "not-evaluable", und, where)
    elif bad:
        c.finding("add_file:whole:data", "a file of %d bytes is handed to the block writer as %s" % (bad[0], bad[1][:6]),
                  "CassetteFile.add_file, evaluated for a file of %d data bytes, passes the byte ranges %s to append_data_blocks: the blocks written must carry bytes 0..%d once, in order"
                  % (bad[0], bad[1][:8], bad[0]), where)
    else:
        c.ok("add_file:whole:data", "the data is handed to the block writer once, in order (10 lengths)", where)


RULES = {"CAS-1": (lambda ctx, c: (cas1(ctx, c), cas1_whole(ctx, c), cas1_addr(ctx, c), cas1_literals(ctx, c), cas1_name(ctx, c), cas1_sizeguard(ctx, c), cas1_gaps(ctx, c), cas1_enum(ctx, c))), "CAS-4": cas4, "CAS-6": cas6b}


# ---------------------------------------------------------------------------------------------------
# CAS-5 reader / writer layout agreement


def writer_layout(ctx):
    """field -> offset in the name-file frame, frame length, from the extracted writer"""
    methods, items = _extract(ctx)
    writers = _block_writers(ctx)
    hdr = next((n for n, t in writers.items() if t == T.BLOCK_NAMEFILE), None)
    if hdr is None:
        raise AnalysisError("CAS-5: no name-file block writer found")
    lay = {}
    total = None
    for conds, flat in paths(_inline(items, items[hdr], hdr)):
        frame, accs, tail, closed = _frame(flat)
        if not closed:
            continue
        if any(x[0] == "other" and "self.buffer" in x[1] for x in _walk_items(flat)):
            return None     # bytes are written through an idiom the extractor does not model: offsets unknown
        off = 0
        for it in frame:
            if it[0] == "byte":
                f = _field(it[1])
                if f:
                    lay.setdefault(f, off)
                off += 1
            elif it[0] == "rep":
                n, sym = count_bytes([it])
                if n is None or sym:
                    return None
                if off == 4:
                    lay["name"] = (off, n)
                off += n
        total = off
        break
    lay["frame_len"] = total
    if "name" not in lay:
        return None
    if "gap_flag" not in lay and "data_type" in lay:
        lay["gap_flag"] = lay["data_type"] + 1      # written as a constant: identified by position
    return lay


def _lin_off(v, base):
    """Lin(base + c) -> c"""
    if isinstance(v, Lin) and v.terms == {base: 1}:
        return v.c
    if isinstance(v, Opq) and v.text == base:
        return 0
    return None


def _find_sub_offset(v, base):
    """offset of the first self.buffer[...] read inside an abstract value"""
    if isinstance(v, Ctor):
        if v.cls == "sub":
            return _lin_off(v.args[1], base)
        if v.cls.startswith("call:") and v.args:
            return _lin_off(v.args[0], base)
        for a in list(v.args) + list(v.kw.values()):
            r = _find_sub_offset(a, base)
            if r is not None:
                return r
    return None


def cas5(ctx, c):
    """CAS-5: the reader consumes exactly the frames the writer produces, field by field."""
    repo = ctx.repo
    C = repo.cls(CLS)
    try:
        lay = writer_layout(ctx)
    except AnalysisError as e:
        c.undecided("writer-layout", "name-file writer not recognised", str(e))
        return
    rf = repo.method(CLS, "read_file")
    rb = repo.method(CLS, "read_blocks")
    where = repo.loc(rf, rf.node)
    if not lay or lay.get("frame_len") is None:
        c.undecided("writer-layout", "not-extractable", "", where)
        return
    helpers = {}
    for n, f in C.methods.items():
        if n.startswith("read_") and n not in ("read_file", "read_blocks", "read_word") and len(f.params) >= 2:
            helpers["self." + n] = f.node
    try:
        it = Interp(rf.node, consts={**ctx.env, **ctx.self_env(CLS)}, sub_bases=("self.buffer",), call_syms={"self.skip_to_sequence": "F"},
                    call_ctors=("self.read_word", "self.read_blocks"), inline=helpers)
        res = it.run()
    except PathCap as e:
        c.undecided("read_file", "path-cap", str(e), where)
        return
    # (a) the scanned header signature
    sig = None
    for n in ast.walk(rf.node):
        if isinstance(n, ast.Call) and U(n.func) == "self.skip_to_sequence" and n.args:
            from ..consteval import try_fold
            sig = try_fold(n.args[0], ctx.env)
    if sig is None:
        c.undecided("read_file:signature", "signature-not-constant", "", where)
    else:
      c.check(sig == [T.SYNC[0], T.SYNC[1], T.BLOCK_NAMEFILE], "read_file:signature", "55 3C 00", "scans for %s" % (sig,),
            "read_file looks for the sequence %s, a name-file block starts 55 3C 00" % (sig,), where)
    want_kw = {"type": "file_type", "data_type": "data_type", "gaps": "gap_flag", "load_addr": "load_hi", "exec_addr": "exec_hi"}
    nret = 0
    for o in res:
        v = o.value
        if o.kind != "return" or not (isinstance(v, Ctor) and v.cls == "list" and v.args and isinstance(v.args[0], Ctor) and v.args[0].cls == "CoCoFile"):
            continue
        nret += 1
        cf = v.args[0]
        w = repo.loc(rf, o.node)
        base = None
        for a in o.path.env.values():
            pass
        # frame base symbol: the F symbol used in the type read
        tv = cf.kw.get("type")
        base = None
        for cand in ("F1", "F2", "F3"):
            if tv is not None and _find_sub_offset(tv, cand) is not None:
                base = cand
        if base is None:
            c.undecided("read_file:fields", "frame-base-not-found", "", w)
            continue
        for kwname, field in want_kw.items():
            off = _find_sub_offset(cf.kw.get(kwname), base) if kwname in cf.kw else None
            site = "read_file:%s" % kwname
            if off is None:
                c.undecided(site, "offset-not-affine", repr(cf.kw.get(kwname))[:60], w)
            elif lay.get(field) is None:
                c.undecided(site, "writer-offset-of-%s-not-extracted" % field, "", w)
            else:
                c.check(off == lay.get(field), site, "@%d = writer's %s" % (off, field), "reads @%d, writer puts %s @%s" % (off, field, lay.get(field)),
                        "read_file takes CoCoFile.%s from frame offset %d, the writer stores the %s at offset %s" % (kwname, off, field, lay.get(field)), w)
        # name via helper
        calls = o.path.env.get("$calls", ())
        nm = [a for f, a in calls]
        if nm and isinstance(lay.get("name"), tuple):
            off = _lin_off(nm[0][0], base)
            c.check(off == lay["name"][0], "read_file:name", "@%s" % off, "name read @%s, written @%d" % (off, lay["name"][0]),
                    "read_file reads the file name at frame offset %s, the writer stores it at %d" % (off, lay["name"][0]), w)
        else:
            c.undecided("read_file:name", "name-helper-not-found", "", w)
        # the position handed back must be where the block reader stopped (the next file is searched from there)
        rp = v.args[1] if len(v.args) > 1 else None
        goodrp = isinstance(rp, Ctor) and rp.cls == "item" and isinstance(rp.args[0], Ctor) and rp.args[0].cls == "call:self.read_blocks" and isinstance(rp.args[1], Const) and rp.args[1].v == 1
        c.check(goodrp, "read_file:resume", "returns the position where read_blocks stopped", "returns %s" % repr(rp)[:60],
                "read_file hands back %s as the place to continue; the next file must be searched after this file's EOF block (otherwise data bytes that look like a header are listed as files)" % repr(rp)[:80], w)
        # (c) where block reading starts
        dv = cf.kw.get("data")
        start = None
        if isinstance(dv, Ctor) and dv.cls == "item" and isinstance(dv.args[0], Ctor) and dv.args[0].args:
            start = _lin_off(dv.args[0].args[0], base)
        if start is None:
            c.undecided("read_file:blocks-start", "not-affine", repr(dv)[:60], w)
        else:
            lo = 4 + T.NAMEFILE_LEN
            c.check(lo <= start <= lay["frame_len"], "read_file:blocks-start", "data search starts within [payload end, frame end]",
                    "data search starts at frame offset %d (frame is %d bytes, payload ends at %d)" % (start, lay["frame_len"], lo),
                    "read_file starts looking for data blocks at offset %d of a %d-byte name-file frame: %s" %
                    (start, lay["frame_len"], "header payload bytes can be mistaken for a sync" if start < lo else "a block that follows immediately is skipped"), w)
    c.floor("read_file return paths building a CoCoFile", nret, 1)
    # name helper reads K bytes
    for hname, hnode in helpers.items():
        sub = Interp(hnode, consts={**ctx.env, **ctx.self_env(CLS)}, sub_bases=("self.buffer",), init_env={hnode.args.args[1].arg: Opq("P")})
        adv = set()
        for o in sub.run():
            if o.kind == "return" and isinstance(o.value, Ctor) and o.value.cls == "list" and len(o.value.args) == 2:
                adv.add(_lin_off(o.value.args[1], "P"))
        if isinstance(lay.get("name"), tuple) and "name" in hname and (not adv or None in adv):
            c.undecided("%s:advance" % hname[5:], "advance-not-affine", str(sorted(adv, key=str)), repo.loc(rf, hnode))
        elif isinstance(lay.get("name"), tuple) and "name" in hname:
            c.check(adv == {lay["name"][1]}, "%s:advance" % hname[5:], "advances %d" % lay["name"][1], "advances %s, name field is %d bytes" % (sorted(adv, key=str), lay["name"][1]),
                    "%s advances the pointer by %s but the name field is %d bytes" % (hname[5:], sorted(adv, key=str), lay["name"][1]), repo.loc(rf, hnode))
            loops = [n for n in ast.walk(hnode) if isinstance(n, ast.For) and isinstance(n.iter, ast.Call) and U(n.iter.func) == "range"]
            from ..consteval import try_fold
            cnt = [try_fold(l.iter.args[-1], ctx.env) for l in loops]
            if not cnt:
                c.undecided("%s:count" % hname[5:], "read-loop-not-recognised", "", repo.loc(rf, hnode))
            else:
              c.check(cnt == [lay["name"][1]], "%s:count" % hname[5:], "reads %d bytes" % lay["name"][1], "reads %s bytes" % cnt,
                    "%s reads %s name bytes, the field has %d" % (hname[5:], cnt, lay["name"][1]), repo.loc(rf, hnode))
    # (d) block reader
    whereb = repo.loc(rb, rb.node)
    try:
        cenv = dict(ctx.env)
        for k_, v_ in list(ctx.env.items()):
            if isinstance(k_, str) and k_.startswith(CLS + "."):
                cenv["self." + k_[len(CLS) + 1:]] = v_
                cenv["cls." + k_[len(CLS) + 1:]] = v_
        it = Interp(rb.node, consts=cenv, sub_bases=("self.buffer",), call_syms={"self.skip_to_sequence": "F"})
        resb = it.run()
    except PathCap as e:
        c.undecided("read_blocks", "path-cap", str(e), whereb)
        return
    sigb = None
    for n in ast.walk(rb.node):
        if isinstance(n, ast.Call) and U(n.func) == "self.skip_to_sequence" and n.args:
            from ..consteval import try_fold
            sigb = try_fold(n.args[0], ctx.env)
    if sigb is None:
        c.undecided("read_blocks:signature", "signature-not-constant", "", whereb)
    else:
      c.check(sigb == [T.SYNC[0], T.SYNC[1]], "read_blocks:signature", "55 3C", "scans for %s" % (sigb,), "read_blocks looks for %s, blocks start 55 3C" % (sigb,), whereb)
    seen_arms = set()
    for o in resb:
        ta = o.path.true_atoms()
        arm = None
        for a in ta:
            m = re.search(r"==\s*'([0-9A-Fa-f]{2})'$", a) or re.search(r"==\s*(0x[0-9A-Fa-f]+|\d+)$", a)
            if m and ("block_type" in a or "type" in a):
                lit = m.group(1)
                arm = int(lit, 16) if not lit.startswith("0x") and "'" in a else int(lit, 0)
        if arm is None:
            continue
        w = repo.loc(rb, o.node)
        if arm == T.BLOCK_EOF and o.kind == "return":
            seen_arms.add("eof")
            v = o.value
            adv = _lin_off(v.args[1], "F1") if isinstance(v, Ctor) and v.cls == "list" and len(v.args) == 2 else None
            if adv is None:
                c.undecided("read_blocks:eof", "advance-not-affine", repr(v)[:60], w)
            else:
                c.check(3 <= adv <= 6, "read_blocks:eof", "advance %d (EOF frame is 6 bytes)" % adv, "advance %d past a 6-byte EOF frame" % adv,
                        "read_blocks advances %d bytes over an EOF frame of 6 bytes: the next file's leader/sync may be skipped" % adv, w)
        if arm == T.BLOCK_DATA and o.kind == "fall":
            seen_arms.add("data")
            pv = o.path.env.get("pointer")
            if not isinstance(pv, Lin):
                c.undecided("read_blocks:data", "advance-not-affine", repr(pv)[:60], w)
                continue
            syms = {k: v for k, v in pv.terms.items() if k != "F1"}
            lens = [k for k in syms if "sub(" in k]
            ok_len = len(syms) == 1 and len(lens) == 1 and list(syms.values()) == [1]
            len_off = None
            if lens:
                m = re.search(r"Lin\(F1\+(\d+)\)", lens[0])
                len_off = int(m.group(1)) if m else None
            good = ok_len and pv.c == 6 and len_off == 3
            c.check(good, "read_blocks:data", "advance = 4 + len + 2, len read @3",
                    "advance = %s (frame is 4 + len@3 + 2)" % (repr(pv)[:90],),
                    "read_blocks does not step over a data block exactly: pointer after the block is %s, the frame is 4 header bytes + len (at offset 3) + checksum + 55; "
                    "payload bytes would be scanned for the next sync" % (repr(pv)[:120],), w)
    # the data bytes are taken from offset 4 + i
    loops = [n for n in ast.walk(rb.node) if isinstance(n, ast.For)]
    c.shape("eof" in seen_arms and "data" in seen_arms, "read_blocks:arms", "EOF and data arms found", "arms recognised: %s" % sorted(seen_arms), whereb)
    # data payload read offsets: evaluate the loop body read with the loop variable symbolic
    it2 = Interp(rb.node, consts={**ctx.env, **ctx.self_env(CLS)}, sub_bases=("self.buffer",), call_syms={"self.skip_to_sequence": "F"})
    offs = set()

    def hook_expr(interp, p, s):
        if isinstance(s.value, ast.Call) and isinstance(s.value.func, ast.Attribute) and s.value.func.attr in ("append", "extend") and s.value.args:
            for q, v in interp.ev(p, s.value.args[0]):
                if isinstance(v, Ctor) and v.cls == "sub" and isinstance(v.args[1], Lin):
                    offs.add(repr(v.args[1]))
        return None
    it2.hooks["expr"] = hook_expr
    try:
        it2.run()
    except PathCap:
        pass
    good = any(re.fullmatch(r"Lin\(F1\+\w+\+4\)", x.replace(" ", "")) for x in offs) and len(offs) == 1
    if offs and not good and any(re.search(r"len\(|<\?!|[A-Z_]{3,}", x) for x in offs):
        c.undecided("read_blocks:payload", "payload-offset-not-affine", str(sorted(offs))[:100], whereb)
    elif offs:
        c.check(good, "read_blocks:payload", "data[i] = frame[4 + i]", "payload read at %s" % sorted(offs),
                "read_blocks copies payload bytes from %s, the payload starts at frame offset 4" % sorted(offs), whereb)
    else:
        c.undecided("read_blocks:payload", "payload-copy-not-recognised", "", whereb)


def cas5b(ctx, c):
    cas5(ctx, c)
    repo = ctx.repo
    C = repo.cls(CLS)
    # the reader lists every header the writer can produce: file types 0-3, data types 00 / FF, gap flags 00 / 01 / FF.  A header refused for the VALUE of such a field
    # makes a good tape unreadable - and get_coco_files takes the refusal for "not a tape", so the image is then overwritten as if it were a raw binary
    from ..consteval import fold as _frf, NotConst as _Nrf
    from ..inline import flatten as _flrf
    rfm = C.methods.get("read_file")
    if rfm is not None:
        rflat = _flrf(repo, rfm, depth=2, only={m_ for m_ in C.methods if m_ not in ("read_blocks", "skip_to_sequence")})
        refused = None
        for n in ast.walk(rflat):
            if isinstance(n, ast.If) and n.body and isinstance(n.body[-1], ast.Raise):
                fields_ = sorted({U(x) for x in ast.walk(n.test) if isinstance(x, ast.Attribute) and x.attr == "int" and re.search(r"type|gap|ascii|flag", U(x))})
                if len(fields_) != 1:
                    continue
                for v_ in (0, 1, 2, 3, 0xFF):
                    if ("data" in fields_[0] or "ascii" in fields_[0]) and v_ not in (0, 0xFF):
                        continue
                    if "gap" in fields_[0] and v_ not in (0, 1, 0xFF):
                        continue
                    if "file" in fields_[0] and v_ == 0xFF:
                        continue
                    try:
                        if _frf(n.test, dict(ctx.env, **{fields_[0]: v_})):
                            refused = refused or (n, fields_[0], v_)
                    except _Nrf:
                        break
        # ... nor for where it loads or how long it is: any load address 0..FFFF with any length that ends at or below $10000 is a file the writer produces
        for n in ast.walk(rflat):
            if refused or not (isinstance(n, ast.If) and n.body and isinstance(n.body[-1], ast.Raise)):
                continue
            addrs_ = sorted({U(x) for x in ast.walk(n.test) if isinstance(x, ast.Attribute) and x.attr == "int" and re.search(r"load|exec|entry|start", U(x))})
            lens_ = sorted({U(x.args[0]) for x in ast.walk(n.test) if isinstance(x, ast.Call) and U(x.func) == "len" and len(x.args) == 1 and isinstance(x.args[0], ast.Name)})
            if not addrs_ or len(lens_) > 1:
                continue
            for load_, n_ in ((0xFF00, 0x100), (0xFFFF, 1), (0, 0xFFFF), (0x8000, 0x8000), (0, 1), (0x0E00, 0x2000)):
                envr = dict(ctx.env)
                for a_ in addrs_:
                    envr[a_] = load_
                for l_ in lens_:
                    envr[l_] = [0] * n_
                try:
                    if _frf(n.test, envr):
                        refused = (n, "load / entry address", load_)
                        c.finding("read_file:refuses-field", "a file of %d bytes at %#06x is refused" % (n_, load_),
                                  "CassetteFile.read_file raises when `%s`, which holds for %d bytes loaded at $%04X (last byte at $%04X): the writer stores such a file, so a tape the tool "
                                  "wrote is refused, and VirtualFile.get_coco_files reads the refusal as 'not a cassette'" % (U(n.test)[:70], n_, load_, load_ + n_ - 1), repo.loc(rfm, n))
                        break
                except _Nrf:
                    break
        if refused and refused[1] == "load / entry address":
            pass
        elif refused:
            c.finding("read_file:refuses-field", "a header whose %s is %#04x is refused" % (refused[1], refused[2]),
                      "CassetteFile.read_file raises when `%s`, which holds for %s = %#04x: the writer stores whatever type and flags a file has, so a tape the tool wrote is refused, "
                      "and VirtualFile.get_coco_files reads the refusal as 'not a cassette' (the target is then treated, and overwritten, as a raw binary)"
                      % (U(refused[0].test)[:70], refused[1], refused[2]), repo.loc(rfm, refused[0]))
        else:
            c.ok("read_file:refuses-field", "no header is refused for the value of its type / flag fields", repo.loc(rfm, rfm.node))
    # "this file has no data" is a statement about how many bytes were read, never about their values: a file of zero bytes ($00 $00 ...) has data
    if rfm is not None:
        for n in ast.walk(rfm.node):
            if isinstance(n, ast.If):
                by_value = [x for x in ast.walk(n.test) if isinstance(x, ast.Call) and U(x.func) in ("any", "all", "sum", "max", "min") and x.args and re.search(r"data|block|payload", U(x.args[0]))]
                if by_value:
                    c.finding("read_file:no-data-test", "the file is taken to have no data by the VALUES of its bytes (%s)" % U(n.test)[:40],
                              "CassetteFile.read_file decides `%s`: a file whose bytes are all $00 is read as a file without data, so it - and, because list_files stops there, every file "
                              "after it - is missing from the listing" % U(n.test)[:60], repo.loc(rfm, n))
    # a tape may carry any amount of leader and blank between blocks: the readers do not give up after a fixed distance
    bounded = None
    for f in [m_ for n_, m_ in C.methods.items() if n_ in ("read_blocks", "read_file", "list_files", "skip_to_sequence")]:
        for n in ast.walk(f.node):
            if not (isinstance(n, ast.If) and n.body and isinstance(n.body[-1], (ast.Raise, ast.Return, ast.Break))):
                continue
            for cmp_ in [x for x in ast.walk(n.test) if isinstance(x, ast.Compare) and len(x.ops) == 1 and isinstance(x.ops[0], (ast.Gt, ast.GtE, ast.Lt, ast.LtE))]:
                sides_ = [cmp_.left, cmp_.comparators[0]]
                dist = [x for x in sides_ if isinstance(x, ast.BinOp) and isinstance(x.op, ast.Sub) and all(isinstance(y, (ast.Name, ast.Attribute)) for y in (x.left, x.right))
                        and re.search(r"pointer|start|pos|offset|index|block|found", U(x))]
                const = [try_fold(x, ctx.env) for x in sides_ if isinstance(try_fold(x, ctx.env), int)]
                if dist and const and const[0] > 2:
                    bounded = bounded or (f, n, U(cmp_), const[0])
    if bounded:
        f_, n_, t_, k_ = bounded
        c.finding("%s:scan-distance" % f_.name, "the scan for the next block gives up after %d bytes (%s)" % (k_, t_[:40]),
                  "CassetteFile.%s stops when `%s`: a well-formed tape may have any amount of leader or blank tape between two blocks (the tool's own writer uses 256 bytes, "
                  "real recordings far more), so a file whose next block lies further away is not listed" % (f_.name, t_), repo.loc(f_, n_))
    else:
        c.ok("readers:scan-distance", "no reader bounds the distance to the next block", repo.loc(C.methods["read_blocks"], C.methods["read_blocks"].node) if "read_blocks" in C.methods else "")
    # the not-found value of skip_to_sequence is the value its callers test for
    sk = C.methods.get("skip_to_sequence")
    if sk is not None:
        last = body_without_doc(sk.node)[-1]
        sentinel = try_fold(last.value, ctx.env) if isinstance(last, ast.Return) and last.value is not None else None
        if sentinel is None:
            c.undecided("skip_to_sequence:not-found", "sentinel-not-constant", "", repo.loc(sk, sk.node))
        else:
            for f in C.methods.values():
                got = set()
                for n in ast.walk(f.node):
                    if isinstance(n, ast.Assign) and isinstance(n.value, ast.Call) and U(n.value.func) == "self.skip_to_sequence":
                        got.add(U(n.targets[0]))
                # an ordering test on the result: evaluated for the sentinel, position 0 and a later position
                from ..consteval import fold as _fs, NotConst as _Nsx
                for n in ast.walk(f.node):
                    if isinstance(n, ast.If) and isinstance(n.test, ast.Compare) and len(n.test.ops) == 1 and isinstance(n.test.ops[0], (ast.Lt, ast.LtE, ast.Gt, ast.GtE)) \
                            and U(n.test.left) in got and n.body and isinstance(n.body[-1], (ast.Return, ast.Raise)):
                        try:
                            tbl = [bool(_fs(n.test, dict(ctx.env, **{U(n.test.left): v_}))) for v_ in (sentinel, 0, 1, 300)]
                        except _Nsx:
                            continue
                        if tbl != [True, False, False, False]:
                            c.finding("%s:not-found-test" % f.name, "`%s` also holds for a sequence found at position %s" % (U(n.test), [0, 1, 300][tbl[1:].index(True)] if True in tbl[1:] else "?"),
                                      "%s.%s gives up when `%s`: skip_to_sequence returns %d only when nothing is found, and a block whose sync bytes start at offset 0 of the buffer "
                                      "(a tape image without a leader) is a valid find" % (CLS, f.name, U(n.test), sentinel), repo.loc(f, n))
                        else:
                            c.ok("%s:not-found-test" % f.name, "gives up exactly for the not-found value", repo.loc(f, n))
                for n in ast.walk(f.node):
                    if isinstance(n, ast.Compare) and len(n.ops) == 1 and isinstance(n.ops[0], (ast.Eq, ast.NotEq)) and U(n.left) in got:
                        k = try_fold(n.comparators[0], ctx.env)
                        if isinstance(k, int) and not isinstance(k, bool):
                            c.check(k == sentinel, "%s:not-found-test" % f.name, "tests for %d, the value skip_to_sequence returns when nothing is found" % sentinel,
                                    "tests for %d, skip_to_sequence returns %d" % (k, sentinel),
                                    "%s.%s compares the result of skip_to_sequence with %d, but a failed search returns %d: a tape that ends early is parsed from a bogus "
                                    "position instead of being reported" % (CLS, f.name, k, sentinel), repo.loc(f, n))
    # the search examines every position: the scan variable advances by one
    if sk is not None:
        steps = []
        for n in ast.walk(sk.node):
            if isinstance(n, ast.For) and isinstance(n.iter, ast.Call) and U(n.iter.func) == "range" and len(n.iter.args) == 3:
                steps.append((try_fold(n.iter.args[2], ctx.env), n))
            if isinstance(n, ast.While):
                for a_ in ast.walk(n):
                    if isinstance(a_, ast.AugAssign) and isinstance(a_.op, ast.Add):
                        vals = [a_.value.body, a_.value.orelse] if isinstance(a_.value, ast.IfExp) else [a_.value]
                        for v_ in vals:
                            steps.append((try_fold(v_, ctx.env), a_))
        badstep = [(k, n) for k, n in steps if isinstance(k, int) and k != 1]
        if badstep:
            c.finding("skip_to_sequence:step", "the scan advances by %d" % badstep[0][0],
                      "skip_to_sequence moves its scan position by %d (`%s`): start positions in between are never compared, so a sync sequence at an odd distance from the start of the "
                      "scan is missed" % (badstep[0][0], U(badstep[0][1])[:60]), repo.loc(sk, badstep[0][1]))
        else:
            c.ok("skip_to_sequence:step", "every position is compared", repo.loc(sk, sk.node))
    # every block is located by its own sync search: a tape may carry a gap and a leader between any two blocks
    rbk = C.methods.get("read_blocks")
    if rbk is not None:
        loops = [n for n in ast.walk(rbk.node) if isinstance(n, (ast.While, ast.For))]
        calls_in = [x for lp in loops for x in ast.walk(lp) if isinstance(x, ast.Call) and U(x.func) == "self.skip_to_sequence"]
        calls_all = [x for x in ast.walk(rbk.node) if isinstance(x, ast.Call) and U(x.func) == "self.skip_to_sequence"]
        if loops and calls_all and not calls_in:
            c.finding("read_blocks:sync", "the sync search is made once, before the block loop",
                      "read_blocks looks for $55 $3C only before the first block and requires every later block to start where the previous one ended: a tape with a gap or leader "
                      "between blocks (as real recordings have) cannot be read", repo.loc(rbk, calls_all[0]))
        elif loops and calls_in:
            c.ok("read_blocks:sync", "each block is located by its own sync search", repo.loc(rbk, calls_in[0]))
    # a data block never ends the reading of a file: only the EOF block does (a tape may carry short data blocks anywhere)
    if rbk is not None:
        for n in ast.walk(rbk.node):
            if isinstance(n, ast.If) and re.search(r"block_type|type", U(n.test)) and re.search(r"'01'|== 1\b|== 0x01|BLOCK_DATA|DATA", U(n.test)):
                rets = [x for x in ast.walk(ast.Module(body=n.body, type_ignores=[])) if isinstance(x, ast.Return)]
                if rets:
                    c.finding("read_blocks:data-block-return", "reading stops after a data block (%s)" % U(next((p_.test for p_ in ast.walk(n) if isinstance(p_, ast.If) and any(r_ is y for r_ in rets for y in ast.walk(p_)) and p_ is not n), n.test))[:50],
                              "read_blocks returns from inside the data-block branch: the blocks that follow (and the EOF block) are not consumed, so the rest of the file is lost and the "
                              "search for the next file starts in the middle of this one", repo.loc(rbk, rets[0]))
                else:
                    c.ok("read_blocks:data-block-return", "only the EOF block ends a file", repo.loc(rbk, n))
    # the extension given to a file read from tape follows its type: machine language (2) is BIN
    rf = C.methods.get("read_file")
    if rf is not None:
        for n in ast.walk(rf.node):
            if isinstance(n, ast.If) and isinstance(n.test, ast.Compare) and len(n.test.ops) == 1 and "type" in U(n.test.left) and \
                    any(isinstance(x, ast.Assign) and U(x.targets[0]) == "extension" for x in n.body):
                k = try_fold(n.test.comparators[0], ctx.env)
                ext = [try_fold(x.value, ctx.env) for x in n.body if isinstance(x, ast.Assign) and U(x.targets[0]) == "extension"]
                if isinstance(k, int) and ext and isinstance(ext[0], str) and ext[0].upper() == "BIN":
                    c.check(isinstance(n.test.ops[0], ast.Eq) and k == T.FILE_OBJECT if hasattr(T, "FILE_OBJECT") else (isinstance(n.test.ops[0], ast.Eq) and k == 2),
                            "read_file:extension", "BIN for file type 2 (machine language)", "BIN when the type %s %d" % (type(n.test.ops[0]).__name__, k),
                            "CassetteFile.read_file labels a file BIN when its type %s %d; machine-language files are type 2, so BASIC and data files are mislabelled when "
                            "copied to a disk" % ({"Eq": "==", "NotEq": "!="}.get(type(n.test.ops[0]).__name__, "?"), k), repo.loc(rf, n))


def _fresh_accumulator(repo, f, mname, pname):
    """every call of method `mname` in the repository passes, for parameter `pname`, a local that the caller bound to a new empty container"""
    all_params = [p_ for p_ in f.params if p_ not in ("self", "cls")]
    if pname not in all_params:
        return False
    pos = all_params.index(pname)
    sites = 0
    for g in repo.all_funcs():
        for call in [x for x in ast.walk(g.node) if isinstance(x, ast.Call) and ((isinstance(x.func, ast.Attribute) and x.func.attr == mname) or (isinstance(x.func, ast.Name) and x.func.id == mname))]:
            sites += 1
            arg = call.args[pos] if len(call.args) > pos else next((k.value for k in call.keywords if k.arg == pname), None)
            if not isinstance(arg, ast.Name):
                return False
            binds = [b_.value for b_ in ast.walk(g.node) if isinstance(b_, ast.Assign) and any(isinstance(t_, ast.Name) and t_.id == arg.id for t_ in b_.targets)]
            fresh = binds and all((isinstance(v_, (ast.List, ast.Dict, ast.Set)) and not getattr(v_, "elts", getattr(v_, "keys", []))) or
                                  (isinstance(v_, ast.Call) and U(v_.func) in ("list", "bytearray", "dict", "set") and not v_.args) for v_ in binds)
            if not fresh:
                return False
    # handler tables: the method referenced without being called (handlers = {"01": self._consume}) and called through the table
    if sites == 0:
        refs = [g for g in repo.all_funcs() for x in ast.walk(g.node) if isinstance(x, ast.Attribute) and x.attr == mname and isinstance(x.ctx, ast.Load)
                and not any(isinstance(c_, ast.Call) and c_.func is x for c_ in ast.walk(g.node))]
        if refs and mname.startswith("_"):
            g = refs[0]
            fresh_locals = {t_.id for b_ in ast.walk(g.node) if isinstance(b_, ast.Assign) for t_ in b_.targets if isinstance(t_, ast.Name)
                            and ((isinstance(b_.value, ast.List) and not b_.value.elts) or (isinstance(b_.value, ast.Call) and U(b_.value.func) in ("list", "bytearray") and not b_.value.args))}
            indirect = [c_ for c_ in ast.walk(g.node) if isinstance(c_, ast.Call) and isinstance(c_.func, ast.Name) and len(c_.args) > pos and isinstance(c_.args[pos], ast.Name)]
            return bool(indirect) and all(c_.args[pos].id in fresh_locals for c_ in indirect)
        return False
    return True


def cas3(ctx, c):
    """input not consumed: writers never mutate the data they are given (C09/C11/C16: the same CoCoFile is written to several containers)"""
    repo = ctx.repo
    n = 0
    for cname in ("CassetteFile", "DiskFile", "BinaryFile", "VirtualFileContainer"):
        if not repo.has_cls(cname):
            continue
        C = repo.cls(cname)
        for mname, f in C.methods.items():
            params = [p for p in f.params if p not in ("self", "cls", "pointer")]
            derived = set(params)
            # locals aliasing a parameter or its attribute (x = coco_file.data)
            for node in ast.walk(f.node):
                if isinstance(node, ast.Assign) and len(node.targets) == 1 and isinstance(node.targets[0], ast.Name):
                    v = node.value
                    root = v
                    while isinstance(root, ast.Attribute):
                        root = root.value
                    if isinstance(v, (ast.Name, ast.Attribute)) and isinstance(root, ast.Name) and root.id in derived:
                        derived.add(node.targets[0].id)
            for node in ast.walk(f.node):
                tgt = []
                if isinstance(node, ast.Delete):
                    tgt = node.targets
                elif isinstance(node, ast.Assign):
                    tgt = node.targets
                elif isinstance(node, ast.AugAssign):
                    tgt = [node.target]
                for t in tgt:
                    if isinstance(t, ast.Subscript):
                        root = t.value
                        while isinstance(root, (ast.Attribute, ast.Subscript)):
                            root = root.value
                        if isinstance(root, ast.Name) and root.id in derived and root.id != "buffer":
                            n += 1
                            c.finding("%s.%s" % (cname, mname), "stores into its argument: %s" % U(t)[:40],
                                      "%s.%s modifies the data it was given (%s); the same CoCoFile is written to every selected container" % (cname, mname, U(node)[:60]),
                                      "%s:%d" % (C.module.rel, node.lineno))
                if isinstance(node, ast.Call) and isinstance(node.func, ast.Attribute) and node.func.attr in (
                        "pop", "remove", "clear", "insert", "append", "extend", "reverse", "sort"):
                    root = node.func.value
                    while isinstance(root, (ast.Attribute, ast.Subscript)):
                        root = root.value
                    if isinstance(root, ast.Name) and root.id in derived and root.id != "buffer" and node.func.attr in ("append", "extend") \
                            and root.id in params and _fresh_accumulator(repo, f, mname, root.id):
                        continue        # an output parameter: every caller hands in a container it has just created
                    if isinstance(root, ast.Name) and root.id in derived and root.id != "buffer":
                        n += 1
                        c.finding("%s.%s" % (cname, mname), "mutates its argument: %s" % U(node)[:40],
                                  "%s.%s mutates the data it was given (%s)" % (cname, mname, U(node)[:60]), "%s:%d" % (C.module.rel, node.lineno))
            c.ok("%s.%s" % (cname, mname), "arguments only read", nontrivial=bool(params))
    # canary
    bad = ast.parse("def f(self, raw):\n    del raw[:255]\n").body[0]
    hit = any(isinstance(x, ast.Delete) for x in ast.walk(bad))
    if not hit:
        raise AnalysisError("CAS-3 canary failed")


RULES.update({"CAS-5": cas5b, "CAS-3": cas3})
