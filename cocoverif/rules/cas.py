"""CAS rules: cassette block writers against the CoCo tape format; reader/writer layout agreement."""
import ast
import re

from ..model import U, body_without_doc, AnalysisError
from ..seqx import Extractor, paths, count_bytes
from ..absint import Interp, Ctor, Lin, Const, Opq, PathCap
from ..refs import cocotape as T

CLS = "CassetteFile"
ACC = ("checksum",)


def _methods(ctx):
    c = ctx.repo.cls(CLS)
    return {n: f.node for n, f in c.methods.items()}


def _norm(fn_node, text):
    """replace parameter names (except self) by $1, $2 ..."""
    params = [a.arg for a in fn_node.args.args if a.arg != "self"]
    for i, p in enumerate(params):
        text = re.sub(r"(?<![\w.])%s(?![\w])" % re.escape(p), "$%d" % (i + 1), text)
    return text


def _norm_items(fn_node, items):
    out = []
    for it in items:
        if it[0] == "byte":
            out.append(("byte", _norm(fn_node, it[1]), it[2], it[3]))
        elif it[0] == "acc":
            out.append(("acc", it[1], it[2], _norm(fn_node, it[3]), it[4]))
        elif it[0] == "rep":
            out.append(("rep", _norm(fn_node, it[1]), it[2], _norm_items(fn_node, it[3]), it[4]))
        elif it[0] == "alt":
            out.append(("alt", _norm(fn_node, it[1]), _norm_items(fn_node, it[2]), _norm_items(fn_node, it[3])))
        elif it[0] == "call":
            out.append(("call", it[1], [_norm(fn_node, a) for a in it[2]], it[3], it[4]))
        elif it[0] == "ret":
            out.append(("ret", _norm(fn_node, it[1]) if it[1] else None))
        else:
            out.append(it)
    return out


def _writer_accs(ctx, methods):
    """accumulator variable names: locals of the writers that are masked into an appended byte"""
    return ACC


def _extract(ctx):
    def build():
        methods = _methods(ctx)
        ex = Extractor(methods, ctx.env, acc_vars=_acc_vars(methods))
        items = {n: _norm_items(methods[n], ex.of_method(n)) for n in methods}
        return methods, items
    return ctx.memo("cas-extract", build)


def _acc_vars(methods):
    """local names assigned an int and later appended under a mask: the checksum accumulators (discovered, not named)"""
    names = set()
    for fn in methods.values():
        for n in ast.walk(fn):
            if isinstance(n, ast.Call) and isinstance(n.func, ast.Attribute) and n.func.attr == "append" and n.args:
                a = n.args[0]
                if isinstance(a, ast.BinOp) and isinstance(a.op, (ast.BitAnd, ast.Mod)) and isinstance(a.left, ast.Name):
                    names.add(a.left.id)
            if isinstance(n, ast.Return) and isinstance(n.value, ast.Name):
                # helper returning its running sum (append_name)
                names.add(n.value.id)
    return names or set(ACC)


def _emits_bytes(items):
    for it in items:
        if it[0] == "byte":
            return True
        if it[0] == "rep" and _emits_bytes(it[3]):
            return True
        if it[0] == "alt" and (_emits_bytes(it[2]) or _emits_bytes(it[3])):
            return True
    return False


def _only_const_bytes(items, value):
    """True if the items emit only constant `value` bytes (any count)"""
    ok = False
    for it in items:
        if it[0] == "byte":
            if it[2] != value:
                return False
            ok = True
        elif it[0] == "rep":
            if not _only_const_bytes(it[3], value):
                return False
            ok = True
        elif it[0] in ("alt", "call", "other", "acc"):
            return False
    return ok


def _inline(items_by_name, items, self_name, depth=0):
    """inline calls to byte-emitting helpers (not fillers, not self-recursion)"""
    out = []
    for it in items:
        if it[0] == "call" and it[1] != self_name and depth < 3:
            callee = items_by_name.get(it[1], [])
            if _only_const_bytes(callee, T.LEADER_BYTE) or _only_const_bytes(callee, 0x00):
                out.append(("filler", it[1], 0x55 if _only_const_bytes(callee, 0x55) else 0x00))
                continue
            if it[3] is not None or _emits_bytes(callee):
                sub = _inline(items_by_name, callee, it[1], depth + 1)
                # substitute callee parameters $n by the call arguments
                def subst(t):
                    if t is None:
                        return t
                    for i, a in enumerate(it[2]):
                        t = t.replace("$%d" % (i + 1), "\0%d" % i)
                    for i, a in enumerate(it[2]):
                        t = t.replace("\0%d" % i, a)
                    return t

                def rewrite(xs):
                    r = []
                    for x in xs:
                        if x[0] == "byte":
                            r.append(("byte", subst(x[1]), x[2], x[3]))
                        elif x[0] == "acc":
                            if it[3] is None:
                                continue
                            op = "+=" if (x[2] == "+=" or it[3][0] == "+=") else "="
                            r.append(("acc", it[3][1], op, subst(x[3]), x[4]))
                        elif x[0] == "rep":
                            r.append(("rep", subst(x[1]), x[2], rewrite(x[3]), x[4]))
                        elif x[0] == "alt":
                            r.append(("alt", subst(x[1]), rewrite(x[2]), rewrite(x[3])))
                        elif x[0] == "ret":
                            continue
                        else:
                            r.append(x)
                    return r
                out += rewrite(sub)
                continue
        if it[0] == "rep":
            out.append(("rep", it[1], it[2], _inline(items_by_name, it[3], self_name, depth), it[4]))
        elif it[0] == "alt":
            out.append(("alt", it[1], _inline(items_by_name, it[2], self_name, depth), _inline(items_by_name, it[3], self_name, depth)))
        else:
            out.append(it)
    return out


def _block_writers(ctx):
    """methods (reachable from add_file) that emit the sync bytes 55 3C: discovered by what they do"""
    methods, items = _extract(ctx)
    out = {}
    for n, its in items.items():
        top = [x for x in its if x[0] in ("byte", "rep", "alt")]
        bs = [x for x in its if x[0] == "byte"]
        # first two top-level constant bytes anywhere (possibly after an early-return alt)
        consts = [x[2] for x in bs[:3]]
        if len(consts) >= 3 and consts[0] == T.SYNC[0] and consts[1] == T.SYNC[1]:
            out[n] = consts[2]
    return out


def _frame(flat):
    """split a flat path into (frame items up to and including the closing byte, accs, tail)"""
    frame, accs, tail = [], [], []
    closed = False
    prev_was_ck = False
    for it in flat:
        if closed:
            tail.append(it)
            continue
        if it[0] == "acc":
            accs.append(it)
            continue
        if it[0] in ("byte", "rep"):
            frame.append(it)
            if prev_was_ck and it[0] == "byte":
                closed = True
            prev_was_ck = it[0] == "byte" and any(re.search(r"(?<![\w.])%s(?![\w])" % re.escape(a[1]), it[1]) for a in accs) and it[2] is None
            continue
        frame.append(it)
    return frame, accs, tail, closed


def _pair(frame, accs):
    """checksum pairing: bytes from the type byte to the byte before the checksum byte vs accumulated terms.
    returns (ok|None, explanation)"""
    body = frame[2:-2]
    wconst, wsym = 0, []
    for it in body:
        if it[0] == "byte":
            if it[2] is not None:
                wconst += it[2]
            else:
                wsym.append(it[1])
        elif it[0] == "rep":
            for conds, flat in paths(it[3]):
                bs = sorted((x[1] if x[2] is None else "#%d" % x[2]) for x in flat if x[0] == "byte")
                cs = sorted((x[3] if x[4] is None else "#%d" % x[4]) for x in flat if x[0] == "acc")
                if [b for b in bs if b != "#0"] != [c for c in cs if c != "#0"]:
                    return False, "inside the loop over %s: bytes written %s but checksum terms %s" % (it[1], bs, cs)
                if any(x[0] not in ("byte", "acc") for x in flat):
                    return None, "loop body has an unknown item"
        else:
            return None, "unknown item %s in the frame" % (it[0],)
    aconst, asym = 0, []
    for a in accs:
        if a[4] is not None:
            aconst += a[4]
        else:
            asym.append(a[3])
    if (wconst - aconst) % 256 != 0 or sorted(wsym) != sorted(asym):
        missing = sorted(set(wsym) - set(asym))
        extra = sorted(set(asym) - set(wsym))
        return False, "bytes written: const %#x + %s; checksum terms: const %#x + %s%s%s" % (
            wconst & 0xFF, sorted(wsym), aconst & 0xFF, sorted(asym),
            "; written but not summed: %s" % missing if missing else "", "; summed but not written: %s" % extra if extra else "")
    return True, "const %#x + %d symbolic terms" % (wconst & 0xFF, len(wsym))


FIELD_PAT = [
    ("file_type", r"\.type\b(?!\w)"),
    ("data_type", r"\.data_type\b"),
    ("gap_flag", r"\.gaps\b"),
    ("load_hi", r"\.load_addr\.high_byte\(\)"), ("load_lo", r"\.load_addr\.low_byte\(\)"),
    ("exec_hi", r"\.exec_addr\.high_byte\(\)"), ("exec_lo", r"\.exec_addr\.low_byte\(\)"),
]


def _field(text):
    for name, pat in FIELD_PAT:
        if re.search(pat, text):
            return name
    return None


def cas1(ctx, c):
    """CAS-1 frame grammar + CAS-2 pairing + CAS-3 lengths on every path of every block writer."""
    repo = ctx.repo
    methods, items = _extract(ctx)
    writers = _block_writers(ctx)
    c.floor("block writers (methods emitting 55 3C)", len(writers), 3)
    kinds = sorted(writers.values())
    for t in (T.BLOCK_NAMEFILE, T.BLOCK_DATA, T.BLOCK_EOF):
        c.check(t in kinds, "writers", "block type %#04x written" % t, "no writer for block type %#04x" % t,
                "no method of CassetteFile writes a block of type %02X" % t, repo.cls(CLS).module.rel)
    for name, btype in sorted(writers.items()):
        fn = repo.method(CLS, name)
        where = repo.loc(fn, fn.node)
        inl = _inline(items, items[name], name)
        npaths = 0
        if all(x[0] == "byte" and x[2] is not None for x in items[name]):
            continue    # literal frame: judged below
        for conds, flat in paths(inl):
            cd = ", ".join("%s=%s" % kv for kv in conds) or "always"
            if flat and flat[0][0] == "ret" or not any(x[0] == "byte" for x in flat):
                c.ok("%s[%s]" % (name, cd), "emits nothing", where, nontrivial=False)
                continue
            npaths += 1
            site = "%s[%s]" % (name, cd)
            frame, accs, tail, closed = _frame(flat)
            if not closed or len(frame) < 6:
                c.undecided(site, "frame-not-recognised", "could not find `checksum byte, closing byte` in the emitted sequence", where)
                continue
            hdr = frame[:4]
            if any(h[0] != "byte" for h in hdr):
                c.undecided(site, "frame-header-not-bytes", "", where)
                continue
            c.check(hdr[0][2] == T.SYNC[0] and hdr[1][2] == T.SYNC[1], site + ":sync", "55 3C", "sync=%s %s" % (hdr[0][1], hdr[1][1]),
                    "%s: block does not start with 55 3C" % name, where)
            c.check(hdr[2][2] in (T.BLOCK_NAMEFILE, T.BLOCK_DATA, T.BLOCK_EOF), site + ":type", "type=%s" % hdr[2][1], "type=%s" % hdr[2][1],
                    "%s: block type byte %s is not 00/01/FF" % (name, hdr[2][1]), where)
            end = frame[-1]
            c.check(end[0] == "byte" and end[2] == T.TRAILER, site + ":trailer", "55", "trailer=%s" % (end[1],),
                    "%s: block does not end with 55" % name, where)
            ckb = frame[-2]
            m = re.fullmatch(r"\(?(\w+)\)? (&|%) (\w+)", ckb[1])
            mask_ok = False
            if m:
                try:
                    k = int(m.group(3), 0)
                    mask_ok = (m.group(2) == "&" and k == 0xFF) or (m.group(2) == "%" and k == 256)
                except ValueError:
                    pass
            if m and not mask_ok:
                c.finding(site + ":ckbyte", "checksum byte is %s" % ckb[1], "%s: the checksum byte must be the sum modulo 256, it is %s" % (name, ckb[1]), where)
            elif mask_ok:
                c.ok(site + ":ckbyte", "sum mod 256", where)
            else:
                c.undecided(site + ":ckbyte", "checksum-byte-form-unknown", ckb[1], where)
            # CAS-2 pairing
            ok, why = _pair(frame, accs)
            if ok is None:
                c.undecided(site + ":pairing", "pairing-not-decidable", why, where)
            elif ok:
                c.ok(site + ":pairing", "checksum = type + length + payload (%s)" % why, where)
            else:
                c.finding(site + ":pairing", "checksum terms differ from bytes written",
                          "%s [%s]: %s" % (name, cd, why), where)
            # CAS-3 length byte vs payload
            payload = frame[4:-2]
            lenb = hdr[3]
            n, sym = count_bytes(payload)
            if n is None:
                c.undecided(site + ":length", "payload-count-unknown", "", where)
            elif not sym:
                c.check(lenb[2] == n, site + ":length", "len=%d=payload" % n, "len byte %s but %d payload bytes" % (lenb[1], n),
                        "%s [%s]: length byte is %s, %d payload bytes follow" % (name, cd, lenb[1], n), where)
                if lenb[2] is not None:
                    c.check(lenb[2] <= T.MAX_DATA, site + ":maxlen", "<=255", "len %d > 255" % lenb[2], "%s: block longer than 255 bytes" % name, where)
            else:
                good = n == 0 and len(sym) == 1 and sym[0][1] == 1 and sym[0][0] == lenb[1]
                c.check(good, site + ":length", "len byte = loop count (%s)" % lenb[1], "len byte %s but payload is %s" % (lenb[1], ["%s x %d" % s for s in sym] + ([n] if n else [])),
                        "%s [%s]: length byte is %s but the payload loop writes %s byte(s)" % (name, cd, lenb[1], " + ".join("%s*%d" % s for s in sym)), where)
                # bound of the symbolic length from the path condition
                bound = None
                for ctext, truth in conds:
                    mm = re.fullmatch(r"%s (<|<=) (\w+)" % re.escape(lenb[1]), ctext)
                    if mm and truth:
                        try:
                            k = int(mm.group(2), 0)
                            bound = k - 1 if mm.group(1) == "<" else k
                        except ValueError:
                            pass
                if bound is None:
                    c.undecided(site + ":maxlen", "no-recognised-bound-on-%s" % lenb[1], "", where)
                else:
                    c.check(bound <= T.MAX_DATA, site + ":maxlen", "%s<=%d" % (lenb[1], bound), "%s may reach %d > 255" % (lenb[1], bound),
                            "%s: the length byte %s may be as large as %d, which does not fit a byte/the 255-byte block limit" % (name, lenb[1], bound), where)
            # block specific content
            if btype == T.BLOCK_NAMEFILE:
                _namefile_payload(c, name, site, payload, where)
            elif btype == T.BLOCK_DATA:
                _data_payload(c, name, site, conds, lenb, payload, tail, where)
            elif btype == T.BLOCK_EOF:
                c.check(lenb[2] == 0 and not payload, site + ":eof", "empty", "EOF block carries %s payload item(s)" % len(payload),
                        "%s: EOF block must have length 0" % name, where)
                ck = frame[-2]
        c.floor("emitting paths of %s" % name, npaths, 1)
    # constant-only frames (EOF written as literals): checksum constant must match
    for name, btype in sorted(writers.items()):
        its = items[name]
        if all(x[0] == "byte" and x[2] is not None for x in its) and len(its) >= 6:
            vals = [x[2] for x in its]
            want = sum(vals[2:-2]) & 0xFF
            fn = repo.method(CLS, name)
            c.check(vals[-2] == want and vals[-1] == T.TRAILER and vals[3] == len(vals) - 6, "%s:literal" % name,
                    "literal frame %s" % " ".join("%02X" % v for v in vals),
                    "literal frame %s (checksum should be %02X, length %02X)" % (" ".join("%02X" % v for v in vals), want, len(vals) - 6),
                    "%s writes a literal frame whose checksum/length/trailer is wrong" % name, repo.loc(fn, fn.node))


def _namefile_payload(c, name, site, payload, where):
    # 8-byte name then the seven header fields in order
    flat = []
    for it in payload:
        if it[0] == "rep":
            flat.append(("rep", it[2], it))
        elif it[0] == "byte":
            flat.append(("byte", it))
    if not flat or flat[0][0] != "rep":
        # name written as 8 single bytes?
        c.undecided(site + ":name", "name-field-shape-unknown", "", where)
        return
    c.check(flat[0][1] == 8, site + ":name", "8 name bytes", "name loop writes %s bytes" % flat[0][1], "%s: the file name field is not 8 bytes" % name, where)
    rest = [x[1] for x in flat[1:] if x[0] == "byte"]
    want = ["file_type", "data_type", "gap_flag", "load_hi", "load_lo", "exec_hi", "exec_lo"]
    if len(rest) != len(want):
        c.finding(site + ":fields", "%d header bytes after the name (format has 7)" % len(rest), "%s: name-file block has %d bytes after the name, the format has 7" % (name, len(rest)), where)
        return
    for pos, (b, w) in enumerate(zip(rest, want)):
        f = _field(b[1])
        s2 = "%s:field%d(%s)" % (site, 12 + pos, w)
        if w == "gap_flag" and b[2] is not None:
            c.check(b[2] in (0x00, 0xFF), s2, "const %#04x" % b[2], "gap flag constant %#04x" % b[2], "%s: gap flag must be 00 or FF" % name, where)
        elif f == w:
            c.ok(s2, b[1], where)
        elif f is not None or b[2] is not None:
            c.finding(s2, "carries %s" % (f or "constant %#04x" % b[2]),
                      "%s: header byte %d must be the %s, the code writes %s" % (name, 12 + pos, w, b[1]), where)
        else:
            c.undecided(s2, "expression-not-classified", b[1], where)


def _data_payload(c, name, site, conds, lenb, payload, tail, where):
    reps = [x for x in payload if x[0] == "rep"]
    if len(reps) != 1 or len(payload) != 1:
        c.undecided(site + ":data", "payload-shape-unknown", "", where)
        return
    rep = reps[0]
    lv = rep[4]
    inner = [x for x in rep[3] if x[0] == "byte"]
    good = len(inner) == 1 and lv is not None and re.fullmatch(r"\$1\[%s\]" % re.escape(lv), inner[0][1]) is not None
    c.check(good, site + ":data", "payload byte i = data[i]", "payload byte is %s" % (inner[0][1] if inner else "?"),
            "%s: payload byte i must be data[i] of the bytes passed in, the loop writes %s" % (name, inner[0][1] if inner else "nothing"), where)
    # continuation: when the whole input may be longer than the count, the rest must be passed on, starting at count
    rec = [x for x in tail if x[0] == "call" and x[1] == name]
    whole = rep[1] == "len($1)"
    if whole:
        c.ok(site + ":continuation", "all of the input written on this arm", where)
    else:
        if not rec:
            c.finding(site + ":continuation", "no continuation after a partial block",
                      "%s: this arm writes %s bytes of a longer input and does not continue with the rest" % (name, rep[1]), where)
        else:
            arg = rec[0][2][0] if rec[0][2] else ""
            m = re.fullmatch(r"\$1\[(\w+):\]", arg)
            k = None
            if m:
                try:
                    k = int(m.group(1), 0)
                except ValueError:
                    pass
            if k is None:
                c.undecided(site + ":continuation", "continuation-argument-not-a-slice", arg, where)
            else:
                c.check(k == rep[2], site + ":continuation", "continues at %d = bytes written" % k, "continues at %s after writing %s bytes" % (k, rep[1]),
                        "%s: wrote %s bytes of the input but continues at offset %d" % (name, rep[1], k), where)
        # the loop must stay inside the input: the arm's condition must imply len >= count
        ok_bound = None
        for ctext, truth in conds:
            mm = re.fullmatch(r"len\(\$1\) (<|<=) (\w+)", ctext)
            if mm and not truth:
                try:
                    kk = int(mm.group(2), 0)
                    least = kk if mm.group(1) == "<" else kk + 1
                    ok_bound = least >= (rep[2] or 0)
                except ValueError:
                    pass
        if ok_bound is None:
            c.undecided(site + ":bounds", "no-recognised-lower-bound", "", where)
        else:
            c.check(ok_bound, site + ":bounds", "len >= count on this arm", "arm may run with fewer than %s input bytes" % rep[1],
                    "%s: the arm that writes %s bytes can be taken with fewer input bytes" % (name, rep[1]), where)


def cas4(ctx, c):
    """CAS-4 file order in add_file; fillers are leaders/blanks; append-only stores."""
    repo = ctx.repo
    methods, items = _extract(ctx)
    writers = _block_writers(ctx)
    fn = repo.method(CLS, "add_file")
    where = repo.loc(fn, fn.node)
    seq = []
    for it in items["add_file"]:
        if it[0] == "call":
            callee = items.get(it[1], [])
            if it[1] in writers:
                seq.append(("block", writers[it[1]], it[1], it[2]))
            elif _only_const_bytes(callee, T.LEADER_BYTE):
                seq.append(("leader", it[1]))
            elif _only_const_bytes(callee, 0x00):
                seq.append(("blank", it[1]))
            else:
                seq.append(("other", it[1]))
        elif it[0] in ("byte", "rep"):
            seq.append(("raw", it[1]))
        elif it[0] in ("alt", "other"):
            seq.append(("other", it[0]))
    blocks = [s[1] for s in seq if s[0] == "block"]
    c.check(blocks == [T.BLOCK_NAMEFILE, T.BLOCK_DATA, T.BLOCK_EOF], "add_file:order", "name-file, data, EOF",
            "block order %s" % ["%02X" % b for b in blocks], "add_file writes blocks in order %s, the format is name-file (00), data (01), EOF (FF)" % ["%02X" % b for b in blocks], where)
    if any(s[0] in ("other", "raw") for s in seq):
        c.undecided("add_file:shape", "unknown-step-in-add_file", str([s for s in seq if s[0] in ("other", "raw")]), where)
    # a leader before the name-file block and before the first data block
    for btype, label in ((T.BLOCK_NAMEFILE, "name-file"), (T.BLOCK_DATA, "data")):
        idx = next((i for i, s in enumerate(seq) if s[0] == "block" and s[1] == btype), None)
        if idx is None:
            continue
        prev_block = max([i for i, s in enumerate(seq[:idx]) if s[0] == "block"], default=-1)
        has_leader = any(s[0] == "leader" for s in seq[prev_block + 1:idx])
        c.check(has_leader, "add_file:leader-before-%s" % label, "leader present", "no leader before the %s block" % label,
                "add_file writes no $55 leader before the %s block" % label, where)
    # arguments: header gets the file, data blocks get its data
    for s in seq:
        if s[0] == "block" and s[1] == T.BLOCK_NAMEFILE:
            c.check(s[3] == ["$1"], "add_file:header-arg", "header(file)", "header(%s)" % s[3], "append_header is not given the file being added", where)
        if s[0] == "block" and s[1] == T.BLOCK_DATA:
            c.check(s[3][:1] == ["$1.data"], "add_file:data-arg", "data blocks(file.data)", "data blocks(%s)" % s[3], "the data blocks are not written from the file's data", where)
    # append-only: no store into / removal from self.buffer in the writer methods
    n = 0
    for mname, mnode in methods.items():
        for node in ast.walk(mnode):
            bad = None
            if isinstance(node, (ast.Assign, ast.AugAssign, ast.Delete)):
                tg = node.targets if isinstance(node, (ast.Assign, ast.Delete)) else [node.target]
                for t in tg:
                    if isinstance(t, ast.Subscript) and U(t.value) == "self.buffer":
                        bad = U(node)
                    if isinstance(t, ast.Attribute) and U(t) == "self.buffer":
                        bad = U(node)
            if isinstance(node, ast.Call) and isinstance(node.func, ast.Attribute) and U(node.func.value) == "self.buffer":
                n += 1
                if node.func.attr in ("insert", "pop", "remove", "clear", "reverse", "sort", "__setitem__", "__delitem__"):
                    bad = U(node)
            if bad:
                c.finding("%s:append-only" % mname, "non-append store: %s" % bad[:50], "CassetteFile.%s modifies the tape buffer other than by appending: %s" % (mname, bad[:80]),
                          "%s:%d" % (repo.cls(CLS).module.rel, node.lineno))
    c.ok("CassetteFile:append-only", "%d buffer calls, all append/extend or reads" % n, where)
    c.floor("buffer calls in CassetteFile", n, 10)


def cas6(ctx, c):
    """CAS-6 sentinel conflict: the writer can emit a file with no data block while the reader treats empty data as end of tape."""
    repo = ctx.repo
    methods, items = _extract(ctx)
    writers = _block_writers(ctx)
    data_writer = next((n for n, t in writers.items() if t == T.BLOCK_DATA), None)
    if data_writer is None:
        raise AnalysisError("CAS-6: no data block writer")
    empty_paths = [conds for conds, flat in paths(_inline(items, items[data_writer], data_writer)) if not any(x[0] == "byte" for x in flat)]
    rf = repo.method(CLS, "read_file")
    falsy_none = None
    for n in ast.walk(rf.node):
        if isinstance(n, ast.If) and isinstance(n.test, ast.UnaryOp) and isinstance(n.test.op, ast.Not) and isinstance(n.test.operand, ast.Name):
            rv = n.body[0].value if n.body and isinstance(n.body[0], ast.Return) else None
            if isinstance(rv, ast.Tuple) and rv.elts:
                rv = rv.elts[0]
            if isinstance(rv, ast.Constant) and rv.value is None:
                # which variable? the one assigned from the block reader
                falsy_none = n
    where = repo.loc(rf, falsy_none or rf.node)
    if empty_paths and falsy_none is not None and U(falsy_none.test.operand) != "pointer":
        c.finding("read_file/%s" % data_writer, "empty data written without a data block, read back as end-of-tape",
                  "a file with no data is written as name-file + EOF (%s emits nothing when %s), and read_file returns None (no more files) "
                  "when the collected data is empty: the empty file and every file after it vanish from the listing"
                  % (data_writer, dict(empty_paths[0])), where)
    else:
        c.ok("read_file/%s" % data_writer, "no sentinel conflict", where)


RULES = {"CAS-1": cas1, "CAS-4": cas4, "CAS-6": cas6}
