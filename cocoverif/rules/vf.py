"""VF (virtual file save/open discipline) and CLI (wiring of assembler.py / file_util.py) rules."""
import ast
import re

from ..model import U, body_without_doc, AnalysisError
from ..consteval import try_fold
from ..cfg import CFG

VF = "VirtualFile"
KINDS = {"CASSETTE": "CassetteFile", "BINARY": "BinaryFile", "DISK": "DiskFile"}


def _calls(node, suffix):
    return [n for n in ast.walk(node) if isinstance(n, ast.Call) and U(n.func).endswith(suffix)]


def _guard_truth(test, ap, fn_node=None):
    """truth table of a guard over (file_exists, append_mode) -> {(e, a): bool} or None"""
    from ..consteval import fold, NotConst
    import copy
    if fn_node is not None:
        # locals assigned exactly once from an expression over file_exists / append_mode are substituted
        defs = {}
        counts = {}
        for n in ast.walk(fn_node):
            if isinstance(n, ast.Assign) and len(n.targets) == 1 and isinstance(n.targets[0], ast.Name):
                counts[n.targets[0].id] = counts.get(n.targets[0].id, 0) + 1
                defs[n.targets[0].id] = n.value

        class Sub(ast.NodeTransformer):
            def visit_Name(self, n):
                if isinstance(n.ctx, ast.Load) and counts.get(n.id) == 1 and n.id != ap:
                    return self.visit(copy.deepcopy(defs[n.id]))
                return n
        try:
            test = Sub().visit(copy.deepcopy(test))
        except RecursionError:
            pass
    tbl = {}
    for e in (False, True):
        for a_ in (False, True):
            try:
                tbl[(e, a_)] = bool(fold(test, {"self.file_exists": e, ap: a_}))
            except NotConst:
                return None
    # "append" is whatever the caller passes (argparse gives a bool; other callers 0 / None / 1): the guard reads it by its truth, not by identity with False / True
    for e in (False, True):
        for a_ in (0, None, 1):
            try:
                v = bool(fold(test, {"self.file_exists": e, ap: a_}))
            except NotConst:
                continue
            if v != tbl[(e, bool(a_))]:
                tbl[(e, "append=%r" % (a_,))] = v
    return tbl


def vf1(ctx, c):
    """VF-1 guard before write; VF-5 rebuild before write; VF-7 whole list in order; kind pairing."""
    from ..inline import flatten
    repo = ctx.repo
    fn = repo.method(VF, "save_virtual_file")
    where = repo.loc(fn, fn.node)
    fn_node = flatten(repo, fn, depth=3)
    g = CFG(fn_node)
    writes = g.find(lambda k, n: k == "stmt" and any(U(x.func).endswith(".write_file") for x in ast.walk(n) if isinstance(x, ast.Call)))
    params = [p for p in fn.params if p != "self"]
    ap = params[0] if params else "append_mode"
    tests = g.find(lambda k, n: k == "test" and "file_exists" in U(n))
    c.floor("host write sites in save_virtual_file", len(writes), 1)
    for w in writes:
        node = g.nodes[w][2]
        verdict = None
        why = ""
        unknown_guard = None
        tests = g.find(lambda k, n: k == "test")
        for t in tests:
            tn = g.nodes[t][2]
            for raise_label in (True, False):
                if not g.only_raises_after(t, raise_label):
                    continue
                if w in g.reachable(avoid_edges=[(t, not raise_label)]):
                    continue        # the write does not depend on this test
                tbl = _guard_truth(tn, ap, fn_node)
                if tbl is None:
                    if "file_exists" in U(tn) or ap in U(tn) or any(isinstance(x, ast.Name) for x in ast.walk(tn)):
                        unknown_guard = U(tn)
                    continue
                # the test dominates the write; does it raise exactly when the file exists and append was not requested?
                refuses = {k for k, v in tbl.items() if v == raise_label}
                odd = sorted(k[1] for k in tbl if isinstance(k[1], str))
                if refuses == {(True, False)} and not odd:
                    verdict = True
                elif odd:
                    verdict = verdict or False
                    why = "the guard `%s` reads the flag by identity, not by truth: for an existing target it decides differently for %s than for the bool of the same truth" % (U(tn), ", ".join(odd))
                else:
                    verdict = verdict or False
                    why = "the guard `%s` refuses for (exists, append) in %s" % (U(tn), sorted(refuses, key=str))
        if verdict is None:
            # a guard spread over nested ifs (if exists: if not append: raise): the raises that precede the write in its block, each under the conjunction of the tests around it
            blk0 = _block_of(fn_node, node)
            raised_for = set()
            evaluable = blk0 is not None
            for st0 in (blk0[:blk0.index(node)] if blk0 else []):
                def _walk_r(n0, chain):
                    nonlocal evaluable
                    if isinstance(n0, ast.Raise):
                        try:
                            from ..consteval import fold as _fg, NotConst as _Ng
                            for e_ in (False, True):
                                for a_ in (False, True):
                                    if all(bool(_fg(t0, {"self.file_exists": e_, ap: a_})) == pos0 for t0, pos0 in chain):
                                        raised_for.add((e_, a_))
                        except _Ng:
                            evaluable = False
                        return
                    if isinstance(n0, ast.If):
                        for b0 in n0.body:
                            _walk_r(b0, chain + [(n0.test, True)])
                        for b0 in n0.orelse:
                            _walk_r(b0, chain + [(n0.test, False)])
                _walk_r(st0, [])
            if evaluable and raised_for:
                verdict = raised_for == {(True, False)}
                why = "the raises before the write fire for (exists, append) in %s" % sorted(raised_for)
        site = "save_virtual_file:write@%s" % _branch_kind(fn_node, node)
        if verdict is True:
            c.ok(site, "dominated by a guard that raises exactly when the target exists and append was not requested", repo.loc(fn, node))
        elif verdict is None and unknown_guard is not None:
            c.undecided(site, "a raising test dominates the write but its condition is not evaluable", unknown_guard, repo.loc(fn, node))
        elif verdict is False:
            c.finding(site, "overwrite guard has the wrong condition", "VirtualFile.save_virtual_file: %s; it must refuse exactly when the target exists and --append was not given" % why, repo.loc(fn, node))
        else:
            c.finding(site, "write not dominated by the overwrite guard",
                      "VirtualFile.save_virtual_file reaches %s without passing a guard that refuses to overwrite an existing file when --append was not given" % U(node), repo.loc(fn, node))
        # rebuild sequence in the block of the write
        blk = _block_of(fn_node, node)
        if blk is None:
            c.undecided(site + ":sequence", "block-not-found", "", repo.loc(fn, node))
            continue
        before = blk[:blk.index(node)]
        setb = [x for st in before for x in ast.walk(st) if isinstance(x, ast.Call) and U(x.func).endswith(".set_buffer")]
        addf = [x for st in before for x in ast.walk(st) if isinstance(x, ast.Call) and U(x.func).endswith(".add_files")]
        if not setb or not addf:
            c.undecided(site + ":sequence", "rebuild-steps-not-in-the-write's-block", "set_buffer: %d, add_files: %d" % (len(setb), len(addf)), repo.loc(fn, node))
            continue
        arg_txt = U(setb[-1].args[0]) if setb[-1].args else ""
        if setb[-1].args and isinstance(setb[-1].args[0], ast.Name):
            # a local that holds the buffer (image = container.get_buffer()): bound once in this block
            b_ = [x.value for st in before for x in ast.walk(st) if isinstance(x, ast.Assign) and any(U(t_) == arg_txt for t_ in x.targets)]
            if len(b_) == 1:
                arg_txt = U(b_[0])
        m = re.fullmatch(r"(\w+)\.get_buffer\(\)", arg_txt) if setb[-1].args else None
        cont = m.group(1) if m else None
        good_add = [x for x in addf if U(x.func) == "%s.add_files" % cont and [U(a_) for a_ in x.args] == ["self.coco_file_list"]]
        if cont is None and setb[-1].args and isinstance(setb[-1].args[0], ast.Name) and arg_txt == U(setb[-1].args[0]):
            c.undecided(site + ":sequence", "the buffer written is a local whose origin is not in this block", arg_txt, repo.loc(fn, node))
        elif cont is None:
            c.finding(site + ":sequence", "the buffer written is %s" % (U(setb[-1].args[0])[:40] if setb[-1].args else "?"),
                      "save_virtual_file hands %s to the source file; it must be the buffer of the container that was just rebuilt" % (U(setb[-1].args[0]) if setb[-1].args else "?"), repo.loc(fn, node))
        elif not good_add:
            c.finding(site + ":sequence", "container %s is filled with %s" % (cont, [U(a_) for x in addf for a_ in x.args]),
                      "save_virtual_file must rebuild the image from the WHOLE file list (add_files(self.coco_file_list)) in the container whose buffer it writes; it calls %s" % [U(x)[:60] for x in addf],
                      repo.loc(fn, node))
        elif good_add[0].lineno > setb[-1].lineno:
            c.finding(site + ":sequence", "buffer taken before the files are added", "save_virtual_file takes the container's buffer before adding the files", repo.loc(fn, node))
        else:
            c.ok(site + ":sequence", "add_files(whole list) -> set_buffer(container buffer) -> write", repo.loc(fn, node))
        # the container is fresh and of the kind being saved
        ctor = None
        for st in [x for b_ in before for x in ast.walk(b_)] or []:
            if isinstance(st, ast.Assign) and cont and U(st.targets[0]) == cont and isinstance(st.value, ast.Call):
                ctor = st.value         # the binding in the block of this write (the same local name may be used in every branch)
        if ctor is None:
            for st in ast.walk(fn_node):
                if isinstance(st, ast.Assign) and cont and U(st.targets[0]) == cont and isinstance(st.value, ast.Call):
                    ctor = st.value
        kind = _branch_kind(fn_node, node)
        if ctor is None:
            c.undecided(site + ":container", "construction-not-found", "", repo.loc(fn, node))
        else:
            c.check(not ctor.args and not ctor.keywords, site + ":fresh", "fresh empty container", "constructed as %s" % U(ctor),
                    "the image is not rebuilt from an empty container: %s" % U(ctor), repo.loc(fn, node))
            cname = U(ctor.func)
            if cname in KINDS.values() and kind in KINDS:
                c.check(cname == KINDS[kind], site + ":kind", "%s image built with %s" % (kind, KINDS[kind]), "%s image built with %s" % (kind, cname),
                        "a %s image is built with %s" % (kind, cname), repo.loc(fn, node))
            else:
                # table driven: (kind, class) pairs in a module/class level constant
                pairs = _kind_table(repo, fn)
                if pairs is None:
                    c.undecided(site + ":kind", "kind/class pairing not extractable", "%s / %s" % (kind, cname), repo.loc(fn, node))
                else:
                    bad = {k: v for k, v in pairs.items() if KINDS.get(k) != v}
                    c.check(not bad and set(pairs) == set(KINDS), "save_virtual_file:kind-table", "CASSETTE, BINARY, DISK paired with their containers", "pairs %s" % pairs,
                            "save_virtual_file pairs container kinds and classes as %s" % pairs, where)
    kinds_seen = {_branch_kind(fn_node, g.nodes[w][2]) for w in writes}
    if kinds_seen <= set(KINDS) and kinds_seen:
        for k in KINDS:
            if k not in kinds_seen:
                c.finding("save_virtual_file:%s" % k, "kind not handled", "save_virtual_file has no branch for %s" % k, where)
    # add_coco_file appends at the end
    ac = repo.method(VF, "add_coco_file")
    p = [x for x in ac.params if x != "self"][0]
    muts = [n for n in ast.walk(ac.node) if isinstance(n, ast.Call) and isinstance(n.func, ast.Attribute) and U(n.func.value) == "self.coco_file_list"]
    stores = [n for n in ast.walk(ac.node) if isinstance(n, (ast.Assign, ast.AugAssign)) and "coco_file_list" in U(n)]
    appends = [n for n in muts if n.func.attr == "append" and [U(a_) for a_ in n.args] == [p]]
    # the same append spelled as a concatenation: `list += [file]`, `list = list + [file]`, `list.extend([file])`
    one = "[%s]" % p
    spelled = [n for n in stores if (isinstance(n, ast.AugAssign) and isinstance(n.op, ast.Add) and U(n.target) == "self.coco_file_list" and U(n.value) in (one, "(%s,)" % p))
               or (isinstance(n, ast.Assign) and [U(t_) for t_ in n.targets] == ["self.coco_file_list"] and U(n.value) in ("self.coco_file_list + " + one, "[*self.coco_file_list, %s]" % p))]
    spelled += [n for n in muts if n.func.attr == "extend" and [U(a_) for a_ in n.args] in ([one], ["(%s,)" % p])]
    stores = [n for n in stores if n not in spelled]
    muts = [n for n in muts if n not in spelled]
    appends = appends + spelled
    others = [n for n in muts if n.func.attr in ("insert", "extend", "pop", "remove", "clear", "reverse", "sort") or (n.func.attr == "append" and n not in appends)]
    if len(appends) == 1 and not others and not stores:
        c.ok("add_coco_file", "appends the file at the end of the list", repo.loc(ac, ac.node))
    elif others or stores:
        c.finding("add_coco_file", "list changed other than by appending the new file: %s" % [U(n)[:50] for n in others + stores],
                  "VirtualFile.add_coco_file must append the new file after the ones already stored; it does %s" % [U(n)[:60] for n in others + stores], repo.loc(ac, ac.node))
    else:
        c.undecided("add_coco_file", "append-not-found", "", repo.loc(ac, ac.node))
    # no container swallows the error of a file that could not be added (the caller would save the image without it and report success)
    for cl_ in repo.classes.values():
        m_ = cl_.methods.get("add_files")
        if m_ is None:
            continue
        for tr_ in [n for n in ast.walk(m_.node) if isinstance(n, ast.Try)]:
            if any(isinstance(x, ast.Call) and U(x.func).endswith(".add_file") for b_ in tr_.body for x in ast.walk(b_)):
                for h in tr_.handlers:
                    if not any(isinstance(y, ast.Raise) for y in ast.walk(h)):
                        c.finding("%s.add_files:errors" % cl_.name, "an error from add_file is caught and not raised again (%s)" % (U(h.type) if h.type is not None else "bare except"),
                                  "%s.add_files catches %s around add_file and carries on: a file that does not fit is dropped, save_virtual_file writes the image without it and "
                                  "the command reports success - the caller is promised an error and an untouched host file" % (cl_.name, U(h.type) if h.type is not None else "everything"),
                                  repo.loc(m_, h))
    # ... nor does any caller: a disk container that refused a file keeps the granules it had provisionally marked, so an image written after a
    # swallowed refusal carries allocation-table entries that belong to no chain
    for f_ in repo.all_funcs():
        if f_.name == "add_files" or not f_.module.rel.startswith("cocoasm/"):
            continue
        for tr_ in [n for n in ast.walk(f_.node) if isinstance(n, ast.Try)]:
            calls_ = [x for b_ in tr_.body for x in ast.walk(b_) if isinstance(x, ast.Call) and isinstance(x.func, ast.Attribute) and x.func.attr in ("add_file", "add_files")]
            if not calls_:
                continue
            for h in tr_.handlers:
                leaves = any(isinstance(y, (ast.Raise, ast.Return)) or (isinstance(y, ast.Call) and U(y.func) in ("sys.exit", "exit", "quit", "os._exit")) for y in ast.walk(h))
                if not leaves:
                    c.finding("%s:errors" % f_.q, "an error from %s is caught and the image is carried on with (%s)" % (calls_[0].func.attr, U(h.type) if h.type is not None else "bare except"),
                              "%s catches %s around %s and carries on: the container has already marked granules for the file it then refused (add_file never takes the marks back), "
                              "so the image saved afterwards holds allocation-table entries that belong to no file, and the command reports success for a file that was not stored"
                              % (f_.q, U(h.type) if h.type is not None else "everything", U(calls_[0].func)), repo.loc(f_, h))
    # add_files of the container base: in order
    af = repo.method("VirtualFileContainer", "add_files")
    loops = [n for n in ast.walk(af.node) if isinstance(n, ast.For)]
    p = [x for x in af.params if x != "self"][0]
    if len(loops) == 1 and isinstance(loops[0].target, ast.Name):
        it = U(loops[0].iter)
        calls = [x for x in ast.walk(loops[0]) if isinstance(x, ast.Call) and U(x.func) == "self.add_file"]
        skipping = [n_ for n_ in ast.walk(loops[0]) if isinstance(n_, ast.If) and (any(isinstance(x, (ast.Continue, ast.Break)) for x in n_.body)
                                                                                or any(x is calls[0] for x in ast.walk(n_) if calls))]
        if skipping:
            c.finding("VirtualFileContainer.add_files:every-file", "a file is stored only when `%s` %s" % (U(skipping[0].test)[:40], "does not hold" if any(isinstance(x, (ast.Continue, ast.Break)) for x in skipping[0].body) else "holds"),
                      "VirtualFileContainer.add_files decides under `%s` whether a file is stored at all: every file handed over is stored (a program that assembles to no bytes still has "
                      "a name and an origin), and the caller is told so" % U(skipping[0].test)[:60], repo.loc(af, skipping[0]))
        elif it == p and len(calls) == 1 and [U(a_) for a_ in calls[0].args] == [loops[0].target.id]:
            c.ok("VirtualFileContainer.add_files", "add_file for each file, in list order", repo.loc(af, af.node))
        elif it != p and re.search(r"reversed|sorted|\[::-1\]|\[-1:\]|\[1:\]|\[:-1\]", it):
            c.finding("VirtualFileContainer.add_files", "iterates %s" % it, "VirtualFileContainer.add_files iterates %s instead of the list in order" % it, repo.loc(af, af.node))
        else:
            c.undecided("VirtualFileContainer.add_files", "shape-not-recognised", it, repo.loc(af, af.node))
    else:
        c.undecided("VirtualFileContainer.add_files", "shape-not-recognised", "", repo.loc(af, af.node))
    bf = repo.method("BinaryFile", "add_file", inherited=False)
    p = [x for x in bf.params if x != "self"][0]
    ext = [x for x in ast.walk(bf.node) if isinstance(x, ast.Call) and U(x.func) in ("self.buffer.extend", "self.buffer.append") or isinstance(x, ast.AugAssign) and U(x.target) == "self.buffer"]
    if len(ext) == 1:
        arg = U(ext[0].args[0]) if isinstance(ext[0], ast.Call) and ext[0].args else (U(ext[0].value) if isinstance(ext[0], ast.AugAssign) else "")
        c.check(arg == "%s.data" % p and not (isinstance(ext[0], ast.Call) and U(ext[0].func).endswith("append")), "BinaryFile.add_file", "raw image = the file's data", "appends %s" % arg,
                "BinaryFile.add_file must append exactly the data bytes; it appends %s" % arg, repo.loc(bf, bf.node))
    else:
        c.undecided("BinaryFile.add_file", "shape-not-recognised", "", repo.loc(bf, bf.node))


from ..concrete import Obj as _Obj, ClsRef as _ClsRef, Desc as _Desc, run_concrete as _run_concrete


def _expand_source_calls(repo, events, notes):
    """A call of a SourceFile helper that is neither set_buffer nor write_file (say `save_buffer(b)`, which does both) is replaced in the trace
    by the calls the helper's body makes on the same receiver, evaluated with the values it was given."""
    sf = repo.classes.get("SourceFile")
    out = []
    for e in events:
        m = sf.methods.get(e[2]) if (sf is not None and e[0] == "call" and "source_file" in e[1]) else None
        if m is None or e[2] in ("set_buffer", "write_file") or not any(
                isinstance(x, ast.Call) and U(x.func) in ("self.set_buffer", "self.write_file") for x in ast.walk(m.node)):
            out.append(e)
            continue
        params = [p_ for p_ in m.params if p_ != "self"]
        sub = dict(zip(params, e[4]))
        sub.update({k: v for k, v in e[5].items() if k in params})
        if len(sub) != len(params):
            out.append(e)
            continue
        ev_, nt_ = [], []
        _run_concrete(body_without_doc(m.node), sub, ev_, nt_)
        notes.extend(nt_)
        for x in ev_:
            out.append((x[0], e[1]) + tuple(x[2:]) if x[0] == "call" and x[1] == "self" else x)
    return out


def vf5(ctx, c):
    """VF-5 the save pipeline evaluated for each container kind: a fresh container of that kind, add_files(the whole list), its buffer handed to
    the source file, the source file written - in that order; add_coco_file records the file; open loads the files already stored."""
    from ..inline import flatten
    repo = ctx.repo
    fn = repo.method(VF, "save_virtual_file")
    where = repo.loc(fn, fn.node)
    flat = flatten(repo, fn, depth=3)
    params = [p for p in fn.params if p != "self"]
    ap = params[0] if params else "append_mode"
    from ..concrete import class_level_functions as _clf
    for kind, kcls in KINDS.items():
        kv = ctx.env.get("VirtualFileType.%s" % kind)
        if kv is None:
            c.undecided("save_virtual_file:%s" % kind, "kind-constant-not-foldable", "", where)
            continue
        env = dict(ctx.env)
        for cn in set(KINDS.values()) | {"FileExistsError", "VirtualFileValidationError"}:
            env[cn] = _ClsRef(cn)
        # module-level tables that mention the container classes
        from ..consteval import fold as _fold, NotConst as _NC
        for nm, node_ in fn.module.assigns.items():
            if nm not in env:
                try:
                    env[nm] = _fold(node_, env)
                except _NC:
                    pass
        for nm, node_ in (fn.cls.assigns.items() if fn.cls else []):
            try:
                env.setdefault("self." + nm, _fold(node_, env))
                env.setdefault("%s.%s" % (fn.cls.name, nm), env["self." + nm])
            except _NC:
                pass
        env.update({"self.virtual_file_type": kv, "self.file_exists": False, ap: False, "self.coco_file_list": _Desc("self.coco_file_list")})
        events, notes = [], []
        try:
            end = _run_concrete(body_without_doc(flat), env, events, notes, functions=_clf(repo))
        except RecursionError:
            notes.append("recursion")
            end = None
        events = _expand_source_calls(repo, events, notes)
        site = "save_virtual_file:%s:pipeline" % kind
        obj = "<%s object>" % kcls
        news = [i for i, e in enumerate(events) if e[0] == "new" and e[1] == kcls]
        other_new = [e[1] for e in events if e[0] == "new" and e[1] in KINDS.values() and e[1] != kcls]
        adds = [i for i, e in enumerate(events) if e[0] == "call" and e[1] == obj and e[2] == "add_files"]
        sets = [i for i, e in enumerate(events) if e[0] == "call" and e[2] == "set_buffer" and "source_file" in e[1]]
        writes = [i for i, e in enumerate(events) if e[0] == "call" and e[2] == "write_file" and "source_file" in e[1]]
        problems = []
        if end and end.startswith("raise"):
            problems.append("it ends in %s for a target that does not exist" % end)
        if not news:
            problems.append("no %s is constructed%s" % (kcls, " (but %s is)" % other_new[0] if other_new else ""))
        elif events[news[0]][2]:
            problems.append("the container is constructed from %s, not empty" % events[news[0]][2])
        if not adds:
            problems.append("the files are never added to the %s" % kcls)
        elif events[adds[0]][3] != ["self.coco_file_list"]:
            problems.append("add_files receives %s instead of the whole file list" % events[adds[0]][3])
        if not sets:
            problems.append("the container's buffer is never handed to the source file")
        elif events[sets[-1]][3] != ["%s.get_buffer()" % obj]:
            problems.append("set_buffer receives %s instead of the %s buffer" % (events[sets[-1]][3], kcls))
        if not writes:
            problems.append("the source file is never written")
        if adds and sets and writes and not (adds[0] < sets[-1] < writes[-1]):
            problems.append("the steps run in the order %s" % [e[2] for e in events if e[0] == "call" and e[2] in ("add_files", "set_buffer", "write_file")])
        # with --append on an existing target the same pipeline runs on the list as it stands: saving does not re-open the target
        env2 = dict(env)
        env2.update({"self.virtual_file_type": kv, "self.file_exists": True, ap: True, "self.coco_file_list": _Desc("self.coco_file_list")})
        ev2, nt2 = [], []
        try:
            _run_concrete(body_without_doc(flat), env2, ev2, nt2, hooks={("os.path", "exists"): True, ("os.path", "isfile"): True}, functions=_clf(repo))
        except RecursionError:
            nt2.append("recursion")
        reopen = [e for e in ev2 if e[0] == "call" and e[1] == "self" and e[2] in ("open_virtual_file", "get_coco_files")]
        relist = repr(env2.get("self.coco_file_list")) != "self.coco_file_list"
        adds2 = [e for e in ev2 if e[0] == "call" and e[1] == obj and e[2] == "add_files"]
        clean_until_reopen = bool(reopen) and not any(e[0] == "note" for e in ev2[:ev2.index(reopen[0])])
        if clean_until_reopen or ((reopen or relist) and not nt2):
            problems.append("with --append the target is re-opened inside save (%s): the file list built by the caller, which holds the stored files plus the new one, is replaced "
                            "by what is on the host" % (reopen[0][2] if reopen else "coco_file_list rebound"))
        elif not nt2 and not adds2:
            problems.append("with --append on an existing target the files are never added to the %s" % kcls)
        if not problems:
            c.ok(site, "fresh %s, add_files(whole list), set_buffer(its buffer), write_file" % kcls, where)
        elif notes:
            c.undecided(site, "pipeline-not-evaluable", "%s; not evaluated: %s" % (problems[0], "; ".join(sorted(set(notes)))[:100]), where)
        else:
            c.finding(site, problems[0], "VirtualFile.save_virtual_file, evaluated for a new %s target: %s (calls made: %s)"
                      % (kind, "; ".join(problems), [("%s.%s" % (e[1], e[2])) for e in events if e[0] == "call"][:8]), where)
    # add_coco_file records the file
    ac = repo.method(VF, "add_coco_file")
    p = [x for x in ac.params if x != "self"][0]
    env = dict(ctx.env)
    env.update({"self.coco_file_list": _Desc("self.coco_file_list"), p: _Desc("the-file")})
    events, notes = [], []
    _run_concrete(body_without_doc(flatten(repo, ac, depth=2)), env, events, notes)
    rec = [e for e in events if e[0] == "call" and "coco_file_list" in e[1] and e[2] in ("append", "extend", "insert")]
    aug = [n for n in ast.walk(ac.node) if isinstance(n, (ast.AugAssign, ast.Assign)) and "coco_file_list" in U(n)]
    if rec or aug:
        c.ok("add_coco_file:records", "the file is put into the list", repo.loc(ac, ac.node))
    elif notes:
        c.undecided("add_coco_file:records", "not-evaluable", "; ".join(notes)[:80], repo.loc(ac, ac.node))
    else:
        c.finding("add_coco_file:records", "the file is not put into the list", "VirtualFile.add_coco_file does not add its argument to coco_file_list: the image is saved without the file", repo.loc(ac, ac.node))
    # ... and unconditionally: a file skipped because "one like it is already there" is a file the caller was told is saved
    skips = []
    acb = body_without_doc(ac.node)
    for i_, st_ in enumerate(acb):
        later_add = any(isinstance(x, ast.Call) and isinstance(x.func, ast.Attribute) and x.func.attr in ("append", "extend", "insert") and "coco_file_list" in U(x.func)
                        for s2 in acb[i_ + 1:] for x in ast.walk(s2))
        if isinstance(st_, ast.If) and later_add and any(isinstance(x, ast.Return) for b_ in st_.body for x in ast.walk(b_)) and not any(isinstance(x, ast.Raise) for x in ast.walk(st_)):
            skips.append(st_)
        if isinstance(st_, ast.If) and not st_.orelse and not later_add and any(
                isinstance(x, ast.Call) and isinstance(x.func, ast.Attribute) and x.func.attr in ("append", "extend", "insert") and "coco_file_list" in U(x.func) for x in ast.walk(st_)) \
                and ("coco_file_list" in U(st_.test) or ".name" in U(st_.test)):
            skips.append(st_)
    if skips:
        c.finding("add_coco_file:always", "the file is recorded only when `%s` does not hold" % U(skips[0].test)[:60] if any(isinstance(x, ast.Return) for x in ast.walk(skips[0]))
                  else "the file is recorded only when `%s`" % U(skips[0].test)[:60],
                  "VirtualFile.add_coco_file returns without recording the file under `%s`: the caller reports the file as saved, the image is written without it"
                  % U(skips[0].test)[:80], repo.loc(ac, skips[0]))
    elif rec or aug:
        c.ok("add_coco_file:always", "recorded on every path", repo.loc(ac, ac.node))
    # open_virtual_file loads what is stored
    ov = repo.method(VF, "open_virtual_file")
    ovf = flatten(repo, ov, depth=2, only={m_ for m_ in repo.cls(VF).methods if m_ not in ("get_coco_files",)})
    t = U(ovf)
    wo = repo.loc(ov, ov.node)
    if "get_coco_files" not in t:
        c.finding("open_virtual_file:loads", "the stored files are not listed", "open_virtual_file never calls get_coco_files: the files already in the target are not loaded, so "
                  "saving with --append writes an image holding only the new file", wo)
    elif not re.search(r"self\.coco_file_list(, \w+)? = |self\.coco_file_list\.(extend|append)|self\.coco_file_list \+=", t):
        c.finding("open_virtual_file:loads", "the listing is not stored in coco_file_list", "open_virtual_file lists the stored files but does not keep them in coco_file_list: "
                  "saving with --append drops them", wo)
    elif not re.search(r"source_file\.read_file\(\)", t):
        c.finding("open_virtual_file:loads", "the target is never read", "open_virtual_file does not read the existing target before listing its files: the listing is that of an empty buffer", wo)
    else:
        idx_r = t.index("read_file()")
        idx_g = t.index("get_coco_files")
        c.check(idx_r < idx_g, "open_virtual_file:loads", "reads the target, lists its files, keeps them", "files are listed before the target is read",
                "open_virtual_file lists the files before reading the target", wo)


def _module_prelude(fn0, env):
    """evaluate the module-level class definitions and assignments of fn0's module into env (tables of rows the function loops over)"""
    from ..concrete import run_concrete as _rcp
    body = [st for st in fn0.module.tree.body if isinstance(st, (ast.ClassDef, ast.Assign, ast.AnnAssign))]
    ev, nt = [], []
    try:
        _rcp(body, env, ev, nt)
    except Exception:
        pass


def _module_resolver(repo, rel):
    def resolver(name):
        try:
            return repo.func(rel, name).node
        except Exception:
            return None
    return resolver


def cli4(ctx, c):
    """CLI-4 file_util.main evaluated for every conversion switch x --files selection x --append: the target container is of the switch's kind, is
    opened, receives exactly the selected files of the source listing, once each and in listing order, and is saved once with the --append flag."""
    from ..inline import flatten
    from ..concrete import Obj, ClsRef, Desc, run_concrete
    repo = ctx.repo
    fn0 = repo.func("file_util.py", "main")
    where = repo.loc(fn0, fn0.node)
    flat = flatten(repo, fn0, depth=2)
    names = ["ALPHA   ", "beta", "GAMMA\x00\x00\x00"]
    n_eval = 0
    for sw, kind in (("to_cas", "CASSETTE"), ("to_dsk", "DISK"), ("to_bin", "BINARY")):
        for files, want_idx in ((None, [0, 1, 2]), (["beta"], [1]), (["GAMMA", "alpha"], [0, 2]), (["nosuch"], [])):
            for append in (False, True):
                listing = []
                for i_, nm in enumerate(names if sw != "to_bin" else names[1:2]):
                    o = Obj("CoCoFile", label="<file %d>" % i_)
                    o.attrs["name"] = nm
                    listing.append(o)
                if sw == "to_bin":
                    want = [0] if (files is None or files == ["beta"]) else []
                else:
                    want = want_idx
                env = dict(ctx.env)
                for cn in ("VirtualFile", "SourceFile"):
                    env[cn] = ClsRef(cn)
                env.update({"args.host_filename": "src.img", "args.list": False, "args.to_cas": None, "args.to_dsk": None, "args.to_bin": None,
                            "args.files": files, "args.append": append})
                env["args.%s" % sw] = "target.img"
                state = {}

                def listing_hook(r, avals, _l=listing, _s=state):
                    src = _s.setdefault("src", r)
                    return list(_l) if r is src else Desc("%r.list_files()" % r)
                events, notes = [], []
                funcs = {n_: f_.node for n_, f_ in fn0.module.funcs.items() if n_ not in ("main", "parse_arguments")} if hasattr(fn0.module, "funcs") else {}
                _module_prelude(fn0, env)
                end = run_concrete(body_without_doc(flat), env, events, notes, hooks={("*", "list_files"): listing_hook}, resolver=None, functions=funcs)
                n_eval += 1
                site = "file_util --%s%s%s" % (sw, "" if files is None else " --files " + " ".join(files), " --append" if append else "")
                vfs = [e[3] for e in events if e[0] == "new" and e[1] == "VirtualFile"]
                target = next((o for o in vfs if _built_on(o, "target.img")), None)
                problems = []
                if end and end.startswith("raise"):
                    problems.append(("end", "the run ends in %s" % end))
                if target is None:
                    problems.append(("kind", "no VirtualFile is built on the path given with --%s" % sw))
                else:
                    kindv = ctx.env.get("VirtualFileType.%s" % kind)
                    got_kind = [v for v in list(getattr(target, "args", [])) + list(target.attrs.values()) if v in [ctx.env.get("VirtualFileType.%s" % k) for k in KINDS]]
                    if got_kind[:1] != [kindv]:
                        problems.append(("kind", "the target of --%s is built as container kind %s" % (sw, got_kind[:1])))
                if not problems:
                    # identity-based call sequence on the target
                    adds, saves, opens = [], [], 0
                    for e in events:
                        if e[0] == "call" and len(e) > 6 and e[6] is target:
                            if e[2] == "add_coco_file":
                                adds.append(e[4][0] if e[4] else None)
                            elif e[2] == "save_virtual_file":
                                saves.append(e)
                            elif e[2] == "open_virtual_file":
                                opens += 1
                    first_add = next((i for i, e in enumerate(events) if e[0] == "call" and len(e) > 6 and e[6] is target and e[2] == "add_coco_file"), None)
                    first_open = next((i for i, e in enumerate(events) if e[0] == "call" and len(e) > 6 and e[6] is target and e[2] == "open_virtual_file"), None)
                    if opens != 1 or (first_add is not None and first_open is not None and first_open > first_add):
                        problems.append(("open", "the target is opened %d time(s)%s" % (opens, " after files were added" if opens else "")))
                    want_objs = [listing[i] for i in want]
                    if any(not isinstance(x, Obj) for x in adds):
                        # a file that is not one of the listing's objects (an element of something the evaluator could not iterate): nothing is established
                        notes.append("a file added is %s" % show_(next(x for x in adds if not isinstance(x, Obj))))
                    elif [id(x) for x in adds] != [id(x) for x in want_objs]:
                        problems.append(("selection", "files added: %s; selected by the switches: %s" % ([show_(x) for x in adds], [show_(x) for x in want_objs])))
                    if len(saves) != 1:
                        problems.append(("save", "save_virtual_file is called %d time(s)" % len(saves)))
                    else:
                        am = saves[0][5].get("append_mode", saves[0][4][0] if saves[0][4] else None)
                        if am is not append:
                            problems.append(("save", "save_virtual_file(append_mode=%r) with --append %s" % (am, "given" if append else "absent")))
                        last_add = max([i for i, e in enumerate(events) if e[0] == "call" and len(e) > 6 and e[6] is target and e[2] == "add_coco_file"] or [-1])
                        if events.index(saves[0]) < last_add:
                            problems.append(("save", "the image is saved before all files are added"))
                if not problems:
                    c.ok(site, "target of kind %s, opened, %d file(s) added in listing order, saved once" % (kind, len(want)), where)
                elif notes:
                    c.undecided(site, "not-evaluable", "%s; not evaluated: %s" % (problems[0][1][:80], "; ".join(sorted(set(notes)))[:100]), where)
                else:
                    for aspect in sorted({a_ for a_, _ in problems}):
                        texts = [t_ for a_, t_ in problems if a_ == aspect]
                        c.finding("file_util --%s:%s:%s" % (sw, aspect, "all files" if files is None else "--files"), texts[0][:120], "%s: %s" % (site, "; ".join(texts)), where)
    # --to_bin refuses an image that holds more than one file, whatever --files selects
    for files, n_on_image in ((None, 3), (["beta"], 3), (["nosuch"], 3), (None, 2), (["beta"], 2)):
        listing = []
        for i_, nm in enumerate(names[:n_on_image]):
            o = Obj("CoCoFile", label="<file %d>" % i_)
            o.attrs["name"] = nm
            listing.append(o)
        env = dict(ctx.env)
        for cn in ("VirtualFile", "SourceFile"):
            env[cn] = ClsRef(cn)
        env.update({"args.host_filename": "src.img", "args.list": False, "args.to_cas": None, "args.to_dsk": None, "args.to_bin": "target.img",
                    "args.files": files, "args.append": False})
        state = {}

        def listing_hook2(r, avals, _l=listing, _s=state):
            src = _s.setdefault("src", r)
            return list(_l) if r is src else Desc("%r.list_files()" % r)
        events, notes = [], []
        funcs = {n_: f_.node for n_, f_ in fn0.module.funcs.items() if n_ not in ("main", "parse_arguments")} if hasattr(fn0.module, "funcs") else {}
        _module_prelude(fn0, env)
        end = run_concrete(body_without_doc(flat), env, events, notes, hooks={("*", "list_files"): listing_hook2}, functions=funcs)
        n_eval += 1
        saves = [e for e in events if e[0] == "call" and e[2] == "save_virtual_file"]
        site = "file_util --to_bin (%d files on the image)%s" % (n_on_image, "" if files is None else " --files " + " ".join(files))
        if not saves and end == "exit":
            c.ok(site, "refused: exits without saving", where)
        elif notes:
            c.undecided(site, "not-evaluable", "; ".join(sorted(set(notes)))[:100], where)
        else:
            c.finding("file_util --to_bin:several files", "an image holding %s files is not refused%s" % ({2: "two", 3: "three"}[n_on_image], "" if files is None else " when --files names one"),
                      "%s: %s; --to_bin writes a raw binary, which holds one file, and must refuse an image that holds more than one" %
                      (site, "the target is saved" if saves else "the run ends with %s" % end), where)
    # the names given with --files are compared whole (case aside): cutting them at a dot, a blank or a length selects other files than the ones asked for
    for n_ in ast.walk(fn0.node):
        if isinstance(n_, ast.Assign) and "args.files" in U(n_.value):
            cut = [x for x in ast.walk(n_.value) if (isinstance(x, ast.Call) and isinstance(x.func, ast.Attribute) and x.func.attr in ("split", "rsplit", "partition", "rpartition", "replace", "removesuffix", "rstrip", "lstrip"))
                   or (isinstance(x, ast.Subscript) and isinstance(x.slice, ast.Slice))]
            if cut:
                c.finding("file_util.main:files-normalisation", "the requested names are cut before they are compared (%s)" % U(cut[0])[:40],
                          "file_util.main normalises the --files arguments with `%s`: a requested name such as V1.2 is compared as V1, so it no longer selects the file V1.2 and selects "
                          "the file V1 instead" % U(cut[0])[:60], repo.loc(fn0, n_))
    from ..model import one_shot_reuse as _osr
    for nm_, b_, uses_ in _osr(fn0.node):
        c.finding("file_util.main:one-shot", "`%s` is a one-shot iterator read at %d places" % (nm_, len(uses_)),
                  "file_util.main binds `%s = %s` and loops over it for more than one target: the first loop exhausts it, so when two targets are given in one run (--to_cas X --to_dsk Y) "
                  "the second image is written with no files at all, and the run still reports success" % (nm_, U(b_.value)[:50]), repo.loc(fn0, b_))
    c.ok("file_util.main", "%d configurations evaluated" % n_eval, where, nontrivial=False)


def _built_on(o, path):
    """the VirtualFile object o wraps a SourceFile constructed on `path` (given positionally or by keyword)"""
    from ..concrete import Obj as _Ob
    parts = list(getattr(o, "args", [])) + list(getattr(o, "attrs", {}).values())
    for a in parts:
        if isinstance(a, _Ob) and (path in list(getattr(a, "args", [])) or path in list(getattr(a, "attrs", {}).values())):
            return True
    return False


def cli5(ctx, c):
    """CLI-5 assembler.main evaluated for every output switch x (NAM present / absent) x (--name given / absent) x --append: the CoCoFile carries the
    program's name (else --name), origin, image; each switch builds its own kind of container on its own path, opens it, adds that file, saves
    once with the --append flag; without any name no cassette or disk file is made."""
    from ..inline import flatten
    from ..concrete import Obj, ClsRef, Desc, run_concrete, show
    repo = ctx.repo
    fn0 = repo.func("assembler.py", "main")
    where = repo.loc(fn0, fn0.node)
    flat = flatten(repo, fn0, depth=2)
    n_eval = 0
    for sw, kind in (("to_bin", "BINARY"), ("to_cas", "CASSETTE"), ("to_dsk", "DISK")):
        for pname in ("PROG", None, ""):
            for cname in (None, "cli", "", "na.me"):
                for append in (False, True):
                    env = dict(ctx.env)
                    for cn in ("VirtualFile", "SourceFile", "Program", "CoCoFile"):
                        env[cn] = ClsRef(cn)
                    env.update({"args.filename": "x.asm", "args.symbols": False, "args.print": False, "args.to_bin": None, "args.to_cas": None, "args.to_dsk": None,
                                "args.name": cname, "args.append": append, "args.width": None})
                    env["args.%s" % sw] = "target.img"
                    events, notes = [], []
                    funcs = {n_: f_.node for n_, f_ in fn0.module.funcs.items() if n_ not in ("main", "parse_arguments")} if hasattr(fn0.module, "funcs") else {}
                    _module_prelude(fn0, env)
                    end = run_concrete(body_without_doc(flat), env, events, notes, hooks={("new", "Program"): {"name": pname}}, functions=funcs)
                    n_eval += 1
                    eff = pname or cname
                    site = "assembler --%s%s%s%s" % (sw, " (NAM %s)" % pname if pname else " (no NAM)", (" --name %r" % cname) if cname is not None else "", " --append" if append else "")
                    problems = []
                    files = [e[3] for e in events if e[0] == "new" and e[1] == "CoCoFile"]
                    vfs = [e[3] for e in events if e[0] == "new" and e[1] == "VirtualFile"]
                    target = next((o for o in vfs if _built_on(o, "target.img")), None)
                    if end and end.startswith("raise"):
                        problems.append(("sequence", "the run ends in %s" % end))
                    if len(files) != 1:
                        problems.append(("file", "%d CoCoFile objects are built" % len(files)))
                    else:
                        f = files[0]
                        a = f.attrs
                        if a.get("name") != eff:
                            problems.append(("file", "the file is named %r; NAM gives %r and --name %r" % (a.get("name"), pname, cname)))
                        prog = "<Program object>"
                        if show(a.get("load_addr")) != prog + ".origin":
                            problems.append(("file", "load address is %s, not the program's origin" % show(a.get("load_addr"))))
                        if show(a.get("exec_addr")) not in (prog + ".origin", prog + ".exec_addr", prog + ".entry"):
                            problems.append(("file", "entry address is %s, not the program's origin / END address" % show(a.get("exec_addr"))))
                        if show(a.get("data")) != prog + ".get_binary_array()":
                            problems.append(("file", "data is %s, not the assembled image" % show(a.get("data"))))
                        if show(a.get("type")) not in ("NumericValue(2)",):
                            problems.append(("file", "file type is %s, a machine-language file is type 2" % show(a.get("type"))))
                        if show(a.get("data_type")) not in ("NumericValue(0)",):
                            problems.append(("file", "data type is %s, binary is 0" % show(a.get("data_type"))))
                    # the source named on the command line is read, and what was read is what is assembled
                    src = next((e[3] for e in events if e[0] == "new" and e[1] == "SourceFile" and ("x.asm" in getattr(e[3], "args", []) or "x.asm" in list(e[3].attrs.values()))), None)
                    reads = [i for i, e in enumerate(events) if e[0] == "call" and len(e) > 6 and e[6] is src and e[2] == "read_file"]
                    procs = [i for i, e in enumerate(events) if e[0] == "call" and e[1] == "<Program object>" and e[2] == "process"]
                    if src is None:
                        problems.append(("source", "no SourceFile is built on the file named on the command line"))
                    elif not procs:
                        problems.append(("source", "the program is never processed"))
                    elif not reads or reads[0] > procs[0]:
                        problems.append(("source", "the source file is not read before it is assembled"))
                    elif events[procs[0]][3] != ["<SourceFile object>.get_buffer()"]:
                        problems.append(("source", "Program.process receives %s, not the lines read from the source file" % events[procs[0]][3]))
                    expect_target = (kind == "BINARY") or bool(eff)
                    if not expect_target:
                        if vfs:
                            problems.append(("guard", "a %s container is built although the program has no name" % kind))
                    elif target is None:
                        problems.append(("kind", "no VirtualFile is built on the path given with --%s" % sw))
                    else:
                        kinds_all = [ctx.env.get("VirtualFileType.%s" % k) for k in KINDS]
                        got_kind = [v for v in list(getattr(target, "args", [])) + list(target.attrs.values()) if v in kinds_all and v is not None]
                        if got_kind[:1] != [ctx.env.get("VirtualFileType.%s" % kind)]:
                            problems.append(("kind", "the target of --%s is built as container kind %s" % (sw, got_kind[:1])))
                        seq = [e for e in events if e[0] == "call" and len(e) > 6 and e[6] is target]
                        meths = [e[2] for e in seq]
                        if meths != ["open_virtual_file", "add_coco_file", "save_virtual_file"]:
                            problems.append(("sequence", "the target goes through %s; it must be opened, given the file, saved" % meths))
                        else:
                            if not (seq[1][4] and files and seq[1][4][0] is files[0]):
                                problems.append(("sequence", "add_coco_file receives %s, not the file built from the program" % seq[1][3]))
                            am = seq[2][5].get("append_mode", seq[2][4][0] if seq[2][4] else None)
                            if am is not append:
                                problems.append(("append", "save_virtual_file(append_mode=%r) with --append %s" % (am, "given" if append else "absent")))
                        if len(vfs) != 1:
                            problems.append(("sequence", "%d containers are built for one output switch" % len(vfs)))
                    if not problems:
                        c.ok(site, "file from the program; %s" % ("%s target opened, file added, saved" % kind if expect_target else "no container without a name"), where)
                    elif notes:
                        c.undecided(site, "not-evaluable", "%s; not evaluated: %s" % (problems[0][1][:80], "; ".join(sorted(set(notes)))[:100]), where)
                    else:
                        for aspect in sorted({a_ for a_, _ in problems}):
                            texts = [t_ for a_, t_ in problems if a_ == aspect]
                            c.finding("assembler --%s:%s:%s" % (sw, aspect, "named" if eff else "unnamed"), texts[0][:120], "%s: %s" % (site, "; ".join(texts)), where)
    # several output switches at once: each is served on its own terms (a missing name stops the cassette and the disk file, never the raw binary)
    KV = {"to_bin": "BINARY", "to_cas": "CASSETTE", "to_dsk": "DISK"}
    for combo in (("to_bin", "to_cas"), ("to_bin", "to_dsk"), ("to_bin", "to_cas", "to_dsk")):
        for pname in ("PROG", None):
            env = dict(ctx.env)
            for cn in ("VirtualFile", "SourceFile", "Program", "CoCoFile"):
                env[cn] = ClsRef(cn)
            env.update({"args.filename": "x.asm", "args.symbols": False, "args.print": False, "args.to_bin": None, "args.to_cas": None, "args.to_dsk": None,
                        "args.name": None, "args.append": False, "args.width": None})
            for sw_ in combo:
                env["args.%s" % sw_] = "target_%s.img" % sw_
            events, notes = [], []
            funcs = {n_: f_.node for n_, f_ in fn0.module.funcs.items() if n_ not in ("main", "parse_arguments")} if hasattr(fn0.module, "funcs") else {}
            _module_prelude(fn0, env)
            run_concrete(body_without_doc(flat), env, events, notes, hooks={("new", "Program"): {"name": pname}}, functions=funcs)
            n_eval += 1
            vfs = [e[3] for e in events if e[0] == "new" and e[1] == "VirtualFile"]
            site = "assembler %s (%s)" % (" ".join("--" + x for x in combo), "NAM %s" % pname if pname else "no name")
            missing = []
            for sw_ in combo:
                need_ = sw_ == "to_bin" or bool(pname)
                tgt = next((o for o in vfs if _built_on(o, "target_%s.img" % sw_)), None)
                saved = tgt is not None and any(e[0] == "call" and len(e) > 6 and e[6] is tgt and e[2] == "save_virtual_file" for e in events)
                if need_ and not saved:
                    missing.append("--%s is given but its %s file is not saved" % (sw_, KV[sw_]))
                if not need_ and saved:
                    missing.append("--%s saves a %s file although the program has no name" % (sw_, KV[sw_]))
            if not missing:
                c.ok(site, "each switch served on its own terms", where)
            elif notes:
                c.undecided(site, "not-evaluable", "%s; not evaluated: %s" % (missing[0][:80], "; ".join(sorted(set(notes)))[:80]), where)
            else:
                c.finding("assembler several switches:%s" % ("named" if pname else "unnamed"), missing[0][:110], "%s: %s" % (site, "; ".join(missing)), where)
    c.ok("assembler.main", "%d configurations evaluated" % n_eval, where, nontrivial=False)


def vf9(ctx, c):
    """VF-9 host input / output of SourceFile: a binary target is written whole, to the file it names, in binary mode; reading gives the bytes one
    per element; read_file / write_file go to the routine of their file type with the object's own name and buffer."""
    from ..concrete import Obj, ClsRef, Desc, run_concrete, show
    repo = ctx.repo
    if not repo.has_cls("SourceFile"):
        c.undecided("SourceFile", "class-not-found", "")
        return
    C = repo.cls("SourceFile")

    def resolver(name):
        f_ = repo.lookup(C, name)
        return f_.node if f_ is not None else None
    # write_binary_contents
    wb = C.methods.get("write_binary_contents")
    if wb is not None:
        where = repo.loc(wb, wb.node)
        ps = [p for p in wb.params if p not in ("self", "cls")]
        env = dict(ctx.env)
        env.update({ps[0]: Desc("FILENAME"), ps[1]: Desc("BUFFER")})
        events, notes = [], []
        run_concrete(body_without_doc(wb.node), env, events, notes)
        opened = [e[3] for e in events if e[0] == "new" and e[1] == "file"]
        writes = [e for e in events if e[0] == "call" and e[2] in ("write", "writelines") and isinstance(e[6], Obj) and e[6].cls == "file"]
        problems = []
        if not opened:
            problems.append("no file is opened")
        else:
            o = opened[0]
            mode = o.args[1] if len(o.args) > 1 else o.attrs.get("mode", "r")
            if show(o.args[0]) != "FILENAME":
                problems.append("the file opened is %s, not the name given" % show(o.args[0]))
            if not (isinstance(mode, str) and "w" in mode and "b" in mode and "a" not in mode):
                problems.append("the file is opened in mode %r; an image is written whole, in binary (wb)" % (mode,))
        if not writes:
            problems.append("nothing is written to the file")
        elif writes[0][3] not in (["bytearray(BUFFER)"], ["bytes(BUFFER)"], ["bytes(bytearray(BUFFER))"]):
            problems.append("what is written is %s, not the bytes of the buffer" % writes[0][3])
        if len(writes) > 1:
            problems.append("%d writes" % len(writes))
        if not problems:
            c.ok("SourceFile.write_binary_contents", "opens the named file 'wb' and writes the whole buffer once", where)
        elif notes:
            c.undecided("SourceFile.write_binary_contents", "not-evaluable", "%s; %s" % (problems[0], "; ".join(notes))[:140], where)
        else:
            c.finding("SourceFile.write_binary_contents", problems[0][:100], "SourceFile.write_binary_contents: %s - the host file then does not hold the image that was built" % "; ".join(problems), where)
    # read_binary_contents: one list element per byte
    rb = C.methods.get("read_binary_contents")
    if rb is not None:
        where = repo.loc(rb, rb.node)
        reads = [x for x in ast.walk(rb.node) if isinstance(x, ast.Call) and isinstance(x.func, ast.Attribute) and x.func.attr == "read"]
        fb = [x for x in ast.walk(rb.node) if isinstance(x, ast.Call) and U(x.func) == "int.from_bytes"]
        sizes = [try_fold(x.args[0], ctx.env) if x.args else None for x in reads]
        opens = [x for x in ast.walk(rb.node) if isinstance(x, ast.Call) and U(x.func) == "open"]
        modes = [try_fold(x.args[1], ctx.env) if len(x.args) > 1 else next((try_fold(k.value, ctx.env) for k in x.keywords if k.arg == "mode"), "r") for x in opens]
        if opens and any(isinstance(m_, str) and "b" not in m_ for m_ in modes):
            c.finding("SourceFile.read_binary_contents:mode", "opened in mode %r" % (modes[0],), "read_binary_contents opens the image in text mode %r: bytes are decoded and line ends translated" % (modes[0],), where)
        elif opens:
            c.ok("SourceFile.read_binary_contents:mode", "binary mode", where)
        if fb and reads:
            if all(k == 1 for k in sizes):
                c.ok("SourceFile.read_binary_contents", "one byte per element (read(1) + int.from_bytes)", where)
            elif any(isinstance(k, int) and k != 1 for k in sizes):
                bad = next(k for k in sizes if isinstance(k, int) and k != 1)
                c.finding("SourceFile.read_binary_contents", "reads %d byte(s) per element" % bad,
                          "read_binary_contents turns each read(%d) into one list element with int.from_bytes: %s" % (bad, "the loop never ends / nothing is read" if bad == 0 else
                                                                                                                   "two bytes are fused into one element, the buffer is half as long and holds values above 255"), where)
            else:
                c.undecided("SourceFile.read_binary_contents", "read-size-not-constant", str(sizes), where)
        elif reads and not fb and all(not x.args for x in reads):
            c.ok("SourceFile.read_binary_contents", "whole file read at once", where)
        elif not reads:
            c.finding("SourceFile.read_binary_contents", "the file is never read", "read_binary_contents has no read call: an existing image is seen as empty", where)
        # the loop advances: a read inside the loop
        for lp in [x for x in ast.walk(rb.node) if isinstance(x, ast.While)]:
            inner = [x for x in ast.walk(lp) if isinstance(x, ast.Call) and isinstance(x.func, ast.Attribute) and x.func.attr == "read" and x is not lp.test]
            inner = [x for x in inner if not any(x is y for y in ast.walk(lp.test))]
            walrus = any(isinstance(x, ast.NamedExpr) for x in ast.walk(lp.test))
            if not inner and not walrus and not any(isinstance(x, (ast.Break, ast.Return)) for x in ast.walk(lp)):
                c.finding("SourceFile.read_binary_contents:loop", "the loop never reads the next byte", "read_binary_contents loops on the byte read but never reads another: it does not terminate", where)
            appended = [x for x in ast.walk(lp) if isinstance(x, ast.Call) and isinstance(x.func, ast.Attribute) and x.func.attr in ("append", "extend")]
            if inner and not appended and not any(isinstance(x, ast.AugAssign) for x in ast.walk(lp)):
                c.finding("SourceFile.read_binary_contents:loop", "the bytes read are not kept", "read_binary_contents reads the file but keeps none of the bytes", where)
    # dispatch of read_file / write_file
    for meth, ftype, want in (("read_file", "ASSEMBLY", "read_assembly_contents"), ("read_file", "BINARY", "read_binary_contents"), ("write_file", "BINARY", "write_binary_contents")):
        f = C.methods.get(meth)
        tv = ctx.env.get("SourceFileType.%s" % ftype)
        if f is None or tv is None:
            c.undecided("SourceFile.%s[%s]" % (meth, ftype), "not-found", "")
            continue
        env = dict(ctx.env)
        env.update({"self.file_type": tv, "self.file_name": Desc("NAME"), "self.buffer": Desc("BUFFER")})
        events, notes = [], []
        workers = ("read_assembly_contents", "read_binary_contents", "write_binary_contents")
        run_concrete(body_without_doc(f.node), env, events, notes, workers=workers, resolver=resolver)
        calls = [e for e in events if e[0] == "call" and e[1] in ("self", "SourceFile", "cls") and e[2] in workers]
        site = "SourceFile.%s[%s]" % (meth, ftype)
        where = repo.loc(f, f.node)
        problems = []
        if [e[2] for e in calls] != [want]:
            problems.append("calls %s, a %s source file needs %s" % ([e[2] for e in calls], ftype, want))
        else:
            a = calls[0][3]
            if a[:1] != ["NAME"]:
                problems.append("%s is given %s, not the object's file name" % (want, a[:1]))
            if meth == "write_file" and a[1:2] != ["BUFFER"]:
                problems.append("%s is given %s, not the object's buffer" % (want, a[1:2]))
            if meth == "read_file" and show(env.get("self.buffer")) != "self.%s(NAME)" % want and show(env.get("self.buffer")) != "SourceFile.%s(NAME)" % want:
                problems.append("the bytes read are not kept in self.buffer (it holds %s)" % show(env.get("self.buffer")))
        if not problems:
            c.ok(site, "%s(own name%s)" % (want, ", own buffer" if meth == "write_file" else "") , where)
        elif notes:
            c.undecided(site, "not-evaluable", "%s; %s" % (problems[0], "; ".join(notes))[:140], where)
        else:
            c.finding(site, problems[0][:100], "SourceFile.%s for a %s file: %s" % (meth, ftype, "; ".join(problems)), where)


def show_(x):
    from ..concrete import show
    return show(x)


def _kind_table(repo, fn):
    """{kind: class} from a constant sequence of (VirtualFileType.K, Class) pairs used by the function, or None"""
    for n in ast.walk(fn.node):
        if isinstance(n, ast.For) and isinstance(n.iter, ast.Name):
            val = fn.module.assigns.get(n.iter.id) or (fn.cls.assigns.get(n.iter.id) if fn.cls else None)
            if isinstance(val, (ast.Tuple, ast.List)):
                pairs = {}
                for e in val.elts:
                    if isinstance(e, (ast.Tuple, ast.List)) and len(e.elts) >= 2:
                        m = re.fullmatch(r"VirtualFileType\.(\w+)", U(e.elts[0]))
                        if m:
                            pairs[m.group(1)] = U(e.elts[1])
                return pairs or None
        if isinstance(n, ast.Subscript) and isinstance(n.value, ast.Name):
            val = fn.module.assigns.get(n.value.id) or (fn.cls.assigns.get(n.value.id) if fn.cls else None)
            if isinstance(val, ast.Dict):
                pairs = {}
                for k, v in zip(val.keys, val.values):
                    m = re.fullmatch(r"VirtualFileType\.(\w+)", U(k))
                    if m:
                        pairs[m.group(1)] = U(v)
                return pairs or None
    return None


def _inline_raising_helpers(repo, fn):
    """copy of the function with calls `self.helper(args)` (statement level) replaced by the helper's body when the helper can raise:
    a guard extracted into a method keeps its meaning"""
    import copy
    node = copy.deepcopy(fn.node)
    C = fn.cls

    class Inl(ast.NodeTransformer):
        def visit_Expr(self, st):
            v = st.value
            if isinstance(v, ast.Call) and isinstance(v.func, ast.Attribute) and U(v.func.value) == "self":
                h = repo.lookup(C, v.func.attr)
                if h is not None and h is not fn and any(isinstance(x, ast.Raise) for x in ast.walk(h.node)) and \
                        not any(isinstance(x, ast.Return) and x.value is not None for x in ast.walk(h.node)) and len(h.node.body) <= 6:
                    params = [p for p in h.params if p != "self"]
                    args = [U(a) for a in v.args]
                    if len(args) == len(params) and not v.keywords:
                        mapping = dict(zip(params, v.args))

                        class Sub(ast.NodeTransformer):
                            def visit_Name(self, n):
                                if n.id in mapping and isinstance(n.ctx, ast.Load):
                                    return copy.deepcopy(mapping[n.id])
                                return n
                        body = [Sub().visit(copy.deepcopy(b)) for b in body_without_doc(h.node)]
                        for b in body:
                            ast.copy_location(b, st)
                            for x in ast.walk(b):
                                if not hasattr(x, "lineno"):
                                    x.lineno = st.lineno
                        return body
            return st
    node = Inl().visit(node)
    ast.fix_missing_locations(node)
    return node


def _branch_kind(fn_node, node):
    """the container kind whose test encloses the node (innermost `virtual_file_type == VirtualFileType.K` whose body holds it)"""
    best = "?"
    for b in ast.walk(fn_node):
        if isinstance(b, ast.If) and "virtual_file_type" in U(b.test) and any(x is node for st in b.body for x in ast.walk(st)):
            m = re.search(r"VirtualFileType\.(\w+)", U(b.test))
            if m:
                best = m.group(1)
    return best


WRITE_APIS = ("os.open", "os.write", "os.remove", "os.unlink", "os.rename", "os.replace", "os.truncate", "os.ftruncate", "os.rmdir", "os.removedirs", "os.mkdir", "os.makedirs",
              "shutil.", "pathlib.", "Path(", "os.fdopen", "io.open", "io.FileIO", "tempfile.")


def vf2(ctx, c):
    """VF-2 who may write to the host: one open(..., 'wb') in SourceFile.write_binary_contents, reached only from save_virtual_file."""
    repo = ctx.repo
    opens = []
    others = []
    for f in repo.all_funcs():
        for n in ast.walk(f.node):
            if isinstance(n, ast.Call):
                fn = U(n.func)
                if fn == "open":
                    mode = try_fold(n.args[1], ctx.env) if len(n.args) > 1 else next((try_fold(k.value, ctx.env) for k in n.keywords if k.arg == "mode"), "r")
                    opens.append((f, n, mode))
                elif any(fn == w or (w.endswith(".") and fn.startswith(w)) or (w.endswith("(") and fn + "(" == w) for w in WRITE_APIS):
                    others.append((f, n, fn))
    c.floor("open() calls", len(opens), 2)
    writers = []
    for f, n, mode in opens:
        site = "%s:open(%s)" % (f.q, mode)
        if not isinstance(mode, str):
            c.undecided(site, "mode-not-constant", U(n), repo.loc(f, n))
            continue
        if any(ch in mode for ch in "wax+"):
            writers.append(f.q)
            good = f.q == "SourceFile.write_binary_contents" and mode == "wb"
            c.check(good, site, "the single truncating binary write", "host file opened with mode %r in %s" % (mode, f.q),
                    "%s opens a host file with mode %r; the only write to the host is SourceFile.write_binary_contents opening with 'wb' (truncate, whole image)" % (f.q, mode), repo.loc(f, n))
        else:
            c.ok(site, "read only", repo.loc(f, n))
    for f, n, fn in others:
        c.finding("%s:%s" % (f.q, fn), "host file-system call %s" % fn,
                  "%s calls %s: host files must only be written through open(name, 'wb') in SourceFile.write_binary_contents, which truncates and writes the complete image "
                  "(os.open without O_TRUNC leaves the tail of a longer old file in place)" % (f.q, fn), repo.loc(f, n))
    if "SourceFile.write_binary_contents" not in writers and not others and any(not isinstance(m_, str) for _, _, m_ in opens):
        c.undecided("SourceFile.write_binary_contents", "an open() mode is not a constant", "", "cocoasm/virtualfiles/source_file.py")
    elif "SourceFile.write_binary_contents" not in writers and not others:
        c.finding("SourceFile.write_binary_contents", "no truncating write found", "no open(name, 'wb') found in SourceFile.write_binary_contents", "cocoasm/virtualfiles/source_file.py")
    # the written bytes are the whole buffer
    wb = repo.method("SourceFile", "write_binary_contents")
    t = U(wb.node)
    ps = [p for p in wb.params if p not in ("self", "cls")]
    m_c = re.search(r"\.write\((.*)\)", t)
    if m_c is None or len(ps) < 2:
        c.undecided("SourceFile.write_binary_contents:content", "write-call-not-recognised", "", repo.loc(wb, wb.node))
    else:
        arg = m_c.group(1)
        whole = arg in ("bytearray(%s)" % ps[1], "bytes(%s)" % ps[1], ps[1])
        partial = re.search(r"%s\[[^\]]*:[^\]]*\]" % re.escape(ps[1]), arg) is not None
        if whole:
            c.ok("SourceFile.write_binary_contents:content", "writes the whole buffer", repo.loc(wb, wb.node))
        elif partial:
            c.finding("SourceFile.write_binary_contents:content", "writes %s" % arg, "write_binary_contents writes %s, not the whole buffer it was given" % arg, repo.loc(wb, wb.node))
        else:
            c.undecided("SourceFile.write_binary_contents:content", "written-expression-not-recognised", arg, repo.loc(wb, wb.node))
    # caller chain: write_binary_contents <- SourceFile.write_file <- VirtualFile.save_virtual_file only
    callers = []
    for f in repo.all_funcs():
        for n in ast.walk(f.node):
            if isinstance(n, ast.Call) and U(n.func).endswith("write_binary_contents") and f.q != "SourceFile.write_binary_contents":
                callers.append(f.q)
    if not callers:
        c.undecided("write_binary_contents:callers", "no direct call found (reached through a table or getattr)", "", "cocoasm/virtualfiles/source_file.py")
    else:
      c.check(sorted(set(callers)) == ["SourceFile.write_file"], "write_binary_contents:callers", "called by SourceFile.write_file only", "called by %s" % sorted(set(callers)),
            "write_binary_contents is called from %s" % sorted(set(callers)), "cocoasm/virtualfiles/source_file.py")
    callers2 = []
    for f in repo.all_funcs():
        for n in ast.walk(f.node):
            if isinstance(n, ast.Call) and re.search(r"(^|\.)write_file$", U(n.func)) and f.q != "SourceFile.write_file":
                callers2.append(f.q)
    def only_from_save(q, seen=()):
        if q == "VirtualFile.save_virtual_file":
            return True
        if q in seen or not q.startswith(("VirtualFile.", "SourceFile.")):       # a helper of either class, itself reached only from the save
            return False
        cs = []
        name = q.split(".")[1]
        for f2 in repo.all_funcs():
            for n2 in ast.walk(f2.node):
                if isinstance(n2, ast.Call) and re.search(r"(^|\.)%s$" % re.escape(name), U(n2.func)) and f2.q != q:
                    cs.append(f2.q)
        return bool(cs) and all(only_from_save(x, seen + (q,)) for x in set(cs))
    bad_callers = sorted(x for x in set(callers2) if not only_from_save(x))
    c.check(not bad_callers and callers2, "write_file:callers", "reached only through VirtualFile.save_virtual_file", "called by %s" % bad_callers,
            "SourceFile.write_file is called from %s: a write outside save_virtual_file bypasses the overwrite guard" % bad_callers, "cocoasm/virtualfiles/source_file.py")
    wf = repo.method("SourceFile", "write_file")
    t = U(wf.node)
    m_w = re.search(r"self\.write_binary_contents\(([^)]*)\)", t)
    if m_w is None:
        c.undecided("SourceFile.write_file", "shape-not-recognised", "", repo.loc(wf, wf.node))
    else:
        c.check(m_w.group(1) == "self.file_name, self.buffer", "SourceFile.write_file", "writes its own buffer to its own name", "writes (%s)" % m_w.group(1),
                "SourceFile.write_file writes (%s) instead of its own buffer to its own file name" % m_w.group(1), repo.loc(wf, wf.node))


def vf4(ctx, c):
    """VF-4 file_exists; open_virtual_file: existence test, kind mismatch raise before any state change; VF-6 sniffing order."""
    repo = ctx.repo
    C = repo.cls(VF)
    assigns = []
    for f in C.methods.values():
        for n in ast.walk(f.node):
            if isinstance(n, ast.Assign) and any(U(t) == "self.file_exists" for t in n.targets):
                assigns.append((f.name, try_fold(n.value), n))
            if isinstance(n, ast.AnnAssign) and U(n.target) == "self.file_exists" and n.value is not None:
                assigns.append((f.name, try_fold(n.value), n))
    got = sorted((a, b) for a, b, _ in assigns)
    c.check(got == [("__init__", False), ("open_virtual_file", True)], "file_exists:assignments", "False in __init__, True in open_virtual_file", "assignments %s" % got,
            "VirtualFile.file_exists is assigned at %s; it must start False and become True exactly when the target path exists" % got, C.module.rel)
    ov = repo.method(VF, "open_virtual_file")
    where = repo.loc(ov, ov.node)
    from ..inline import flatten
    ov_flat = flatten(repo, ov, depth=2, only={m_ for m_ in C.methods if m_ not in ("get_coco_files",)})
    g = CFG(ov_flat)
    sets = g.find(lambda k, n: k == "stmt" and isinstance(n, ast.Assign) and U(n.targets[0]) == "self.file_exists")
    tests = g.find(lambda k, n: k == "test" and "os.path.exists" in U(n))
    def exists_label(t):
        n_ = g.nodes[t][2]
        return not (isinstance(n_, ast.UnaryOp) and isinstance(n_.op, ast.Not))
    ok = bool(sets) and bool(tests) and all(s not in g.reachable(avoid_edges=[(t, exists_label(t)) for t in tests]) for s in sets)
    extra = []
    for t in tests:
        n_ = g.nodes[t][2]
        inner = n_.operand if isinstance(n_, ast.UnaryOp) and isinstance(n_.op, ast.Not) else n_
        if isinstance(inner, ast.BoolOp) and isinstance(inner.op, ast.And):
            extra += [U(v) for v in inner.values if "os.path.exists" not in U(v)]
    if ok and extra:
        c.finding("open_virtual_file:exists", "file_exists is set only if the target exists and %s" % " and ".join(extra),
                  "open_virtual_file treats the target as existing only when `%s` also holds: an existing file failing that test is taken for a new one and overwritten without --append" % " and ".join(extra), where)
    elif ok:
        c.ok("open_virtual_file:exists", "file_exists = True only under os.path.exists(target)", where)
    elif sets and not tests and "exists" not in U(ov_flat):
        c.finding("open_virtual_file:exists", "assignment not under an existence test", "open_virtual_file sets file_exists without testing os.path.exists of the target path", where)
    elif sets and tests:
        c.finding("open_virtual_file:exists", "assignment reachable without passing the existence test", "open_virtual_file sets file_exists outside the os.path.exists test of the target path", where)
    else:
        c.undecided("open_virtual_file:exists", "shape-not-recognised", "", where)
    # "does the target exist" answered by trying to read it: only FileNotFoundError means no; any broader handler (OSError and up) takes an existing but unreadable target
    # for a new one, and save then overwrites it without --append
    for tr_ in [n for n in ast.walk(ov_flat) if isinstance(n, ast.Try)]:
        sets_here = any(isinstance(x, ast.Assign) and U(x.targets[0]) == "self.file_exists" for b_ in tr_.body for x in ast.walk(b_))
        if not sets_here:
            continue
        for h_ in tr_.handlers:
            hn = [U(x).split(".")[-1] for x in (h_.type.elts if isinstance(h_.type, ast.Tuple) else [h_.type])] if h_.type is not None else ["BaseException"]
            broad = [x for x in hn if x in ("OSError", "IOError", "EnvironmentError", "Exception", "BaseException", "PermissionError")]
            if broad and not any(isinstance(y, ast.Raise) for y in ast.walk(h_)):
                c.finding("open_virtual_file:exists-by-read", "an error of class %s while reading is taken for 'no such file'" % broad[0],
                          "open_virtual_file decides that the target does not exist when reading it raises %s: that covers an existing file that cannot be read (permissions, a directory, "
                          "an I/O error), which is then treated as new - its kind is never compared and save_virtual_file replaces it without --append" % broad[0], repo.loc(ov, h_))
    # if the path exists, file_exists is set on every path before anything can raise (so that save refuses to overwrite even after a failed open is caught)
    # kind mismatch raises
    mism = g.find(lambda k, n: k == "test" and "virtual_file_type" in U(n) and "!=" in U(n))
    ok = bool(mism) and all(g.only_raises_after(t, True) for t in mism)
    eqt = g.find(lambda k, n: k == "test" and "virtual_file_type" in U(n) and "==" in U(n))
    ok = ok or (bool(eqt) and all(g.only_raises_after(t, False) for t in eqt))
    raises = g.find(lambda k, n: k == "raise")
    # decide by evaluating the raising test for every (requested kind, kind found) pair
    table_verdict = None
    kv = {k: ctx.env.get("VirtualFileType.%s" % k) for k in KINDS}
    if all(v is not None for v in kv.values()):
        from ..consteval import fold as _fold, NotConst as _NC
        for n_ in ast.walk(ov_flat):
            if isinstance(n_, ast.If) and "virtual_file_type" in U(n_.test) and n_.body and isinstance(n_.body[-1], ast.Raise) and not n_.orelse:
                inner = {id(x.value) for x in ast.walk(n_.test) if isinstance(x, ast.Attribute)}
                others = sorted({U(x) for x in ast.walk(n_.test) if isinstance(x, (ast.Name, ast.Attribute)) and id(x) not in inner
                                 and U(x) != "self.virtual_file_type" and not U(x).startswith("VirtualFileType")})
                if len(others) != 1:
                    continue
                wrong = []
                # the tests of the enclosing ifs that speak about the kinds are part of the condition under which the raise is reached
                enclosing = []

                def _walk_enc(node, stack):
                    for fld_ in ("body", "orelse", "finalbody"):
                        for ch in getattr(node, fld_, []) or []:
                            nxt = stack + [(node.test, fld_ == "body")] if isinstance(node, ast.If) and fld_ in ("body", "orelse") else stack
                            if ch is n_:
                                enclosing.extend(nxt)
                            _walk_enc(ch, nxt)
                    for h_ in getattr(node, "handlers", []) or []:
                        _walk_enc(h_, stack)
                _walk_enc(ov_flat, [])
                try:
                    for rq_name, rq in [("none", None)] + list(kv.items()):
                        for fd_name, fd in kv.items():
                            envt = dict(ctx.env)
                            envt.update({"self.virtual_file_type": rq, others[0]: fd})
                            reach = True
                            for t_enc, pos_ in enclosing:
                                if "virtual_file_type" in U(t_enc):
                                    try:
                                        reach = reach and (bool(_fold(t_enc, envt)) == pos_)
                                    except _NC:
                                        pass
                            raised = reach and bool(_fold(n_.test, envt))
                            if raised != (rq is not None and rq != fd):
                                wrong.append((rq_name, fd_name, raised))
                except _NC:
                    continue
                table_verdict = wrong
    if table_verdict is None and all(v is not None for v in kv.values()):
        # the refusal delegated to a helper (require_same_type(name, self.virtual_file_type, detected)): the helper is folded for every pair
        from ..consteval import fold_body as _fbk, Raised as _Rk, NotConst as _Nk
        found_names = set()
        for n_ in ast.walk(ov_flat):
            if isinstance(n_, ast.Assign) and isinstance(n_.targets[0], ast.Tuple) and len(n_.targets[0].elts) == 2 and "get_coco_files" in U(n_.value):
                found_names.add(U(n_.targets[0].elts[1]))
        for n_ in ast.walk(ov_flat):
            if isinstance(n_, ast.Call) and any(U(a_) == "self.virtual_file_type" for a_ in n_.args) and not n_.keywords:
                callee = None
                if isinstance(n_.func, ast.Name):
                    callee = ov.module.funcs.get(n_.func.id)
                elif isinstance(n_.func, ast.Attribute) and isinstance(n_.func.value, ast.Name) and n_.func.value.id in ("self", "cls"):
                    callee = repo.lookup(repo.cls(VF), n_.func.attr)
                if callee is None:
                    continue
                params_ = [p_ for p_ in callee.params if p_ not in ("self", "cls")]
                if len(params_) != len(n_.args):
                    continue
                wrong = []
                try:
                    for rq_name, rq in [("none", None)] + list(kv.items()):
                        for fd_name, fd in kv.items():
                            envk = dict(ctx.env)
                            for p_, a_ in zip(params_, n_.args):
                                envk[p_] = rq if U(a_) == "self.virtual_file_type" else (fd if U(a_) in found_names else "x")
                            envk["self.virtual_file_type"] = rq
                            try:
                                _fbk(body_without_doc(callee.node), envk)
                                raised = False
                            except _Rk:
                                raised = True
                            if raised != (rq is not None and rq != fd):
                                wrong.append((rq_name, fd_name, raised))
                    table_verdict = wrong
                except _Nk:
                    pass
    if table_verdict:
        rq_name, fd_name, raised = table_verdict[0]
        c.finding("open_virtual_file:kind-mismatch", "requested %s, found %s: %s" % (rq_name, fd_name, "refused" if raised else "accepted"),
                  "open_virtual_file %s an existing %s file when a %s container was requested (%d of 12 request/content pairs are decided wrongly): an existing image of another kind "
                  "must be refused, one of the same kind accepted" % ("refuses" if raised else "accepts", fd_name, rq_name, len(table_verdict)), where)
    elif table_verdict == [] or ok:
        c.ok("open_virtual_file:kind-mismatch", "an existing file of another kind raises", where)
    elif not raises and any(isinstance(x, ast.Call) and any("virtual_file_type" in U(a_) for a_ in x.args) for x in ast.walk(ov_flat)):
        c.undecided("open_virtual_file:kind-mismatch", "the kinds are handed to a helper that was not evaluated", "", where)
    elif not raises:
        c.finding("open_virtual_file:kind-mismatch", "no raise on kind mismatch",
                  "open_virtual_file does not refuse an existing target whose content is of a different container kind than requested", where)
    else:
        c.undecided("open_virtual_file:kind-mismatch", "shape-not-recognised", "", where)
    # a truthiness test on the requested kind is only sound if no kind is falsy (plain Enum members are always truthy)
    for t_ in [g.nodes[m_][2] for m_ in mism]:
        vals = t_.values if isinstance(t_, ast.BoolOp) else [t_]
        if any(U(v) == "self.virtual_file_type" for v in vals) and repo.has_cls("VirtualFileType"):
            E = repo.cls("VirtualFileType")
            plain = [b.split(".")[-1] for b in E.bases] == ["Enum"]
            zero = sorted(k for k, v in E.assigns.items() if try_fold(v) in (0, "", None, False))
            used_zero = [k for k in zero if k in KINDS]
            c.check(plain or not used_zero, "open_virtual_file:kind-truthiness", "every container kind is truthy", "VirtualFileType(%s) has falsy member(s) %s" % (",".join(E.bases), used_zero),
                    "open_virtual_file tests `self.virtual_file_type and ...`; with VirtualFileType derived from %s the member(s) %s are falsy, so the kind-mismatch refusal is skipped for them"
                    % (",".join(E.bases), used_zero), where)
    if mism and table_verdict is None:
        t = g.nodes[mism[0]][2]
        form = isinstance(t, ast.BoolOp) and isinstance(t.op, ast.And) and len(t.values) == 2 and U(t.values[0]) == "self.virtual_file_type" and \
            re.fullmatch(r"self\.virtual_file_type != (\w+)", U(t.values[1])) is not None
        c.check(form, "open_virtual_file:kind-mismatch-form", "requested kind set and != sniffed kind", "test %s" % U(t),
                "the kind-mismatch test is %s" % U(t), where)
    # read_file before get_coco_files; the list is replaced by the files read
    t = U(ov.node)
    good = re.search(r"self\.source_file\.read_file\(\)\s+self\.coco_file_list, (\w+) = self\.get_coco_files\(\)", t) is not None
    c.shape(good, "open_virtual_file:load", "reads the target then lists its files", "load sequence not recognised", where)
    # VF-6 sniff order
    gc = repo.method(VF, "get_coco_files")
    order = []
    # what the bytes are does not depend on what the caller hopes they are
    for n in ast.walk(gc.node):
        if isinstance(n, ast.If) and "virtual_file_type" in U(n.test) and any(isinstance(x, ast.Call) and U(x.func) in KINDS.values() for x in ast.walk(n)):
            c.finding("get_coco_files:order", "a sniffer is tried first when the caller asks for its kind (%s)" % U(n.test)[:60],
                      "get_coco_files tries a reader under `%s`: the answer to 'what is in this file' then follows the kind requested, and the permissive cassette reader "
                      "accepts a disk image or a binary as an empty cassette, so the kind-mismatch refusal of open_virtual_file never fires for that request" % U(n.test)[:70],
                      repo.loc(gc, n))
    # ... nor on what the file is called
    gc_binds = {U(n.targets[0]): n.value for n in ast.walk(gc.node) if isinstance(n, ast.Assign) and len(n.targets) == 1}
    for n in ast.walk(gc.node):
        if isinstance(n, ast.If) and "virtual_file_type" not in U(n.test) and any(isinstance(x, ast.Call) and U(x.func) in KINDS.values() for x in ast.walk(n)):
            texts = [U(n.test)] + [U(gc_binds[x.id]) for x in ast.walk(n.test) if isinstance(x, ast.Name) and x.id in gc_binds]
            if any(re.search(r"get_file_name|file_name|filename|splitext|endswith|\.suffix|basename", t_) for t_ in texts):
                c.finding("get_coco_files:by-name", "a reader is tried or skipped on the file's name (%s)" % texts[-1][:50],
                          "get_coco_files tries a reader under `%s` (%s): the kind of an existing file is then decided by what it is called; an image whose name says otherwise is handed "
                          "to the permissive cassette reader, sniffs as an empty cassette, and --append replaces it" % (U(n.test)[:50], texts[-1][:70]), repo.loc(gc, n))
            elif any(re.search(r"len\(.*(buffer|get_buffer\(\))|getsize|st_size", t_) for t_ in texts):
                c.finding("get_coco_files:by-size", "a reader is tried or skipped on the size of the target (%s)" % texts[-1][:50],
                          "get_coco_files tries a reader under `%s`: an image is the kind its content says, whatever its size - a tape as long as a disk image (or a disk image with "
                          "bytes appended) skips the reader that would recognise it, sniffs as another kind, and is then overwritten" % U(n.test)[:60], repo.loc(gc, n))
            else:
                c.undecided("get_coco_files:by-name", "a reader is tried under a condition", U(n.test)[:80], repo.loc(gc, n))
    for n in sorted([x for x in ast.walk(gc.node) if isinstance(x, ast.Try)], key=lambda x: (x.lineno, x.col_offset)):
        if any(isinstance(x, ast.Call) and U(x.func) in KINDS.values() for x in ast.walk(n)):
            for x in ast.walk(n):
                if isinstance(x, ast.Call) and U(x.func) in KINDS.values():
                    order.append(U(x.func))
                    arg = [U(k.value) for k in x.keywords if k.arg == "buffer"] + [U(a) for a in x.args]
                    c.check(arg == ["self.source_file.get_buffer()"], "get_coco_files:%s:buffer" % U(x.func), "sniffs the bytes read from the target", "sniffs %s" % arg,
                            "get_coco_files gives %s to %s" % (arg, U(x.func)), repo.loc(gc, x))
            hs = [U(h.type) if h.type is not None else "bare" for h in n.handlers]
            c.check(hs == ["VirtualFileValidationError"], "get_coco_files:%s:handler" % (order[-1] if order else "?"), "falls through on VirtualFileValidationError only", "handlers %s" % hs,
                    "get_coco_files swallows %s while sniffing" % hs, repo.loc(gc, n))
            # the return pairs the container with its kind
            for r in [x for x in ast.walk(n) if isinstance(x, ast.Return)]:
                rtxt = U(r.value)
                if isinstance(r.value, ast.Tuple) and r.value.elts and isinstance(r.value.elts[0], ast.Name):
                    # a local that holds the listing (files = image.list_files()), bound once in this try
                    b_ = [x.value for x in ast.walk(n) if isinstance(x, ast.Assign) and any(U(t_) == r.value.elts[0].id for t_ in x.targets)]
                    if len(b_) == 1:
                        rtxt = "(%s, %s)" % (U(b_[0]), ", ".join(U(e_) for e_ in r.value.elts[1:]))
                m = re.fullmatch(r"\((\w+)\.list_files\(\), VirtualFileType\.(\w+)\)", rtxt)
                okp = m is not None and order and KINDS.get(m.group(2)) == order[-1]
                if m is None:
                    c.undecided("get_coco_files:%s:kind" % (order[-1] if order else "?"), "returned-pair-not-recognised", rtxt[:80], repo.loc(gc, r))
                else:
                    c.check(bool(okp), "get_coco_files:%s:kind" % (order[-1] if order else "?"), "listing paired with its own kind", "returns %s" % U(r.value),
                            "get_coco_files returns %s for a %s" % (U(r.value), order[-1] if order else "?"), repo.loc(gc, r))
    if not order:
        first = {}
        for n in ast.walk(gc.node):
            if isinstance(n, ast.Name) and n.id in ("DiskFile", "CassetteFile"):
                first.setdefault(n.id, (n.lineno, n.col_offset))
        order = [k for k, _ in sorted(first.items(), key=lambda kv: kv[1])]
    # decided by evaluating get_coco_files for the three kinds of content: disk reader accepts / only the cassette reader accepts / neither does
    from ..concrete import Obj as _Osn, ClsRef as _Csn, Desc as _Dsn, run_concrete as _rsn, _Raise as _Rsn
    sn_problems, sn_notes = [], []
    disk_listing = [_Osn("CoCoFile", label="<file on the disk>")]
    tape_listing = [_Osn("CoCoFile", label="<file on the tape>")]
    for label_, disk_ok, cas_ok, want_kind, want_list in (("a disk image", True, True, "DISK", disk_listing), ("a cassette image", False, True, "CASSETTE", tape_listing),
                                                           ("neither", False, False, "BINARY", []),
                                                           # a tape whose listing is empty (it begins with a file without data) is still a tape
                                                           ("a cassette image that lists no file", False, "empty", "CASSETTE", []),
                                                           # ... and a disk without files (a freshly formatted image) is still a disk
                                                           ("a disk image that lists no file", "empty", True, "DISK", [])):
        envs = dict(ctx.env)
        for cn_ in KINDS.values():
            envs[cn_] = _Csn(cn_)
        envs["VirtualFileValidationError"] = _Csn("VirtualFileValidationError")
        consulted = []

        def lister(r, a, _d=disk_ok, _c=cas_ok, _seen=consulted):
            _seen.append(r.cls)
            if r.cls == "DiskFile":
                if _d == "empty":
                    return []
                if _d:
                    return list(disk_listing)
                raise _Rsn("raise:VirtualFileValidationError")
            if r.cls == "CassetteFile":
                if _c == "empty":
                    return []
                if _c:
                    return list(tape_listing)
                raise _Rsn("raise:VirtualFileValidationError")
            return _Dsn("<listing of %s>" % r.cls)
        evs, nts = [], []
        end_ = _rsn(body_without_doc(gc.node), envs, evs, nts, hooks={("*", "list_files"): lister})
        sn_notes += nts
        ret_ = envs.get("$return")
        if nts:
            continue
        if end_ != "return" or not isinstance(ret_, (tuple, list)) or len(ret_) != 2:
            sn_problems.append(("result", "for %s the method ends with %s / returns %r" % (label_, end_, ret_)))
            continue
        kind_ = getattr(ret_[1], "name", None)
        lst_ = list(ret_[0]) if isinstance(ret_[0], (list, tuple)) else ret_[0]
        if kind_ != want_kind:
            sn_problems.append(("kind", "content that is %s is reported as %s" % (label_, kind_ or ret_[1])))
        elif lst_ != want_list:
            sn_problems.append(("listing", "for %s the files returned are %r" % (label_, lst_)))
        if disk_ok and consulted and consulted[0] != "DiskFile":
            sn_problems.append(("order", "the %s reader is consulted before the disk reader" % consulted[0]))
    sniff_by_evaluation = not sn_notes
    if sniff_by_evaluation:
        if sn_problems:
            seen_k = set()
            for k_, t_ in sn_problems:
                if k_ in seen_k:
                    continue
                seen_k.add(k_)
                c.finding("get_coco_files:sniff:%s" % k_, t_[:110], "VirtualFile.get_coco_files, evaluated for the three kinds of content: %s; the disk reader decides first, then the cassette "
                          "reader, and anything else is a raw binary with no files" % t_, repo.loc(gc, gc.node))
        else:
            c.ok("get_coco_files:sniff", "disk, then cassette, then binary with no files (3 kinds of content evaluated)", repo.loc(gc, gc.node))
    if sniff_by_evaluation:
        pass
    elif len(order) < 2:
        c.undecided("get_coco_files:order", "sniffing-shape-not-recognised", str(order), repo.loc(gc, gc.node))
    else:
        c.check(order == ["DiskFile", "CassetteFile"], "get_coco_files:order", "disk, then cassette, then binary", "order %s" % order,
                "get_coco_files sniffs in order %s; each later sniffer is more permissive, so the order must be disk, cassette, binary" % order, repo.loc(gc, gc.node))
    last = body_without_doc(gc.node)[-1]
    if sniff_by_evaluation:
        pass
    elif isinstance(last, ast.Return) and re.fullmatch(r"\(\[\], VirtualFileType\.BINARY\)", U(last.value)):
        c.ok("get_coco_files:fallback", "anything else is a raw binary with no files", repo.loc(gc, last))
    elif isinstance(last, ast.Return) and re.fullmatch(r"\(.*, VirtualFileType\.(\w+)\)", U(last.value)):
        c.finding("get_coco_files:fallback", "fallback %s" % U(last.value), "get_coco_files falls back to %s" % U(last.value), repo.loc(gc, last))
    else:
        c.undecided("get_coco_files:fallback", "shape-not-recognised", U(last)[:60], repo.loc(gc, last))
    # known finding: a cassette is recognised by absence of a header
    lf = repo.method("CassetteFile", "list_files", inherited=False)
    has_raise = any(isinstance(n, ast.Raise) for n in ast.walk(lf.node))
    rf = repo.method("CassetteFile", "read_file", inherited=False)
    if not has_raise:
        c.finding("CassetteFile.list_files", "any byte string without a name-file header lists as a cassette with no files",
                  "CassetteFile.list_files returns [] (no error) when no header block is found, so arbitrary bytes - a raw binary, an empty file, a cassette of 161,280 bytes or more "
                  "after the disk sniffer rejected it - sniff as an (empty) cassette: --to_cas <that file> --append overwrites it, and a large cassette cannot be re-opened as a cassette",
                  repo.loc(lf, lf.node))
    else:
        c.ok("CassetteFile.list_files", "rejects input without a header", repo.loc(lf, lf.node))


def _save_sites(fn):
    """VirtualFile(...) constructions and the call sequences on the variable they are bound to, per enclosing block"""
    sites = []
    for n in ast.walk(fn.node):
        if isinstance(n, ast.Assign) and isinstance(n.value, ast.Call) and U(n.value.func) == "VirtualFile" and isinstance(n.targets[0], ast.Name):
            sites.append(n)
    return sites


def _block_of(fn_node, stmt):
    for n in ast.walk(fn_node):
        for field in ("body", "orelse", "finalbody"):
            b = getattr(n, field, None)
            if isinstance(b, list) and stmt in b:
                return b
    return None


def vf3(ctx, c):
    """VF-3 typestate at every CLI save site: construct -> open -> add* -> save(append_mode=args.append); kind pairs with the switch."""
    repo = ctx.repo
    n_sites = 0
    for rel in ("assembler.py", "file_util.py"):
        fn0 = repo.func(rel, "main")
        from ..inline import flatten

        class _F:
            pass
        fn = _F()
        fn.node = flatten(repo, fn0, depth=2)
        fn.module = fn0.module
        for site in _save_sites(fn):
            var = site.targets[0].id
            blk = _block_of(fn.node, site)
            if blk is None:
                continue
            seq = []
            for st in blk[blk.index(site) + 1:]:
                for x in ast.walk(st):
                    if isinstance(x, ast.Call) and isinstance(x.func, ast.Attribute) and isinstance(x.func.value, ast.Name) and x.func.value.id == var:
                        seq.append((x.func.attr, x))
            kind = None
            call = site.value
            kargs = [U(a) for a in call.args[1:]] + [U(k.value) for k in call.keywords if k.arg == "virtual_file_type"]
            m = re.fullmatch(r"VirtualFileType\.(\w+)", kargs[0]) if kargs else None
            kind = m.group(1) if m else None
            src = U(call.args[0]) if call.args else ""
            ms = re.fullmatch(r"SourceFile\(args\.(\w+), file_type=SourceFileType\.BINARY\)", src)
            switch = ms.group(1) if ms else None
            where = "%s:%d" % (rel, getattr(site, "lineno", 0))
            name = "%s:%s" % (rel, switch or var)
            if switch in ("to_bin", "to_cas", "to_dsk"):
                n_sites += 1
                want = {"to_bin": "BINARY", "to_cas": "CASSETTE", "to_dsk": "DISK"}[switch]
                c.check(kind == want, name + ":kind", "--%s writes a %s container" % (switch, want), "--%s builds a %s container" % (switch, kind),
                        "%s: the target of --%s is built as a %s container" % (rel, switch, kind), where)
                names = [a for a, _ in seq]
                saves = [x for a, x in seq if a == "save_virtual_file"]
                good = names[:1] == ["open_virtual_file"] and names.count("open_virtual_file") == 1 and len(saves) == 1 and names[-1] == "save_virtual_file" and \
                    all(a in ("open_virtual_file", "add_coco_file", "save_virtual_file", "list_files") for a in names)
                if good:
                    c.ok(name + ":typestate", "open -> add* -> save", where)
                else:
                    # the statement-level reading does not see through helpers that return the container; CLI-4 / CLI-5 decide the sequence by evaluation
                    c.undecided(name + ":typestate", "call-sequence-not-in-one-block", "calls %s" % names, where)
                opens = [x for a, x in seq if a == "open_virtual_file"]
                for st in blk[blk.index(site) + 1:]:
                    if opens and any(x is opens[0] for x in ast.walk(st)):
                        if isinstance(st, (ast.If, ast.While, ast.For)):
                            c.finding(name + ":open", "the target is opened only under a condition (%s)" % U(st.test if hasattr(st, "test") else st.iter)[:50],
                                      "%s: --%s opens its target only when `%s`; open_virtual_file is what notices an existing file, so on the other branch the "
                                      "overwrite protection of save_virtual_file sees file_exists == False" % (rel, switch, U(st.test if hasattr(st, "test") else st.iter)[:60]),
                                      "%s:%d" % (rel, getattr(st, "lineno", 0)))
                        else:
                            c.ok(name + ":open", "opened unconditionally", where)
                for sv in saves:
                    kw = {k.arg: U(k.value) for k in sv.keywords}
                    pos = [U(a) for a in sv.args]
                    am = kw.get("append_mode", pos[0] if pos else None)
                    c.check(am == "args.append", name + ":append", "append_mode = args.append", "append_mode = %s" % am,
                            "%s: --%s saves with append_mode=%s instead of the --append switch" % (rel, switch, am), where)
            elif rel == "file_util.py" and "host_filename" in src:
                n_sites += 1
                names = [a for a, _ in seq]
                c.check("save_virtual_file" not in names and names[:1] == ["open_virtual_file"], name + ":source", "the source image is opened and never saved", "calls %s" % names,
                        "file_util: the source image goes through %s" % names, where)
    c.floor("CLI container sites", n_sites, 7)


def cli_args(ctx, c):
    """the switches that decide what is written mean 'not given' when they are not given: no default that stands for a request (a name, an output path, append)"""
    repo = ctx.repo
    for rel in ("assembler.py", "file_util.py"):
        if rel not in repo.modules:
            continue
        m = repo.modules[rel]
        for f in m.funcs.values():
            for x in ast.walk(f.node):
                if not (isinstance(x, ast.Call) and isinstance(x.func, ast.Attribute) and x.func.attr == "add_argument" and x.args):
                    continue
                flag = try_fold(x.args[0], ctx.env)
                if flag not in ("--append", "--name", "--to_bin", "--to_cas", "--to_dsk", "--files"):
                    continue
                kw = {k.arg: k.value for k in x.keywords if k.arg}
                site = "%s:%s" % (rel.split(".")[0], flag)
                if "default" in kw:
                    dv = try_fold(kw["default"], ctx.env, default="?not-constant")
                    neutral = dv is None or (flag == "--append" and dv is False)
                    if not neutral:
                        c.finding(site + ":default", "%s has the default %s" % (flag, U(kw["default"])[:40]),
                                  "%s declares %s with default=%s: when the switch is not given the program behaves as if it had been (%s)" % (
                                      rel, flag, U(kw["default"])[:50],
                                      {"--append": "an existing image is appended to / overwritten without --append", "--name": "a file is written under a name nobody asked for instead of being refused"}.get(flag, "an output is written that was not requested")),
                                  repo.loc(f, x))
                        continue
                if flag == "--append":
                    act = try_fold(kw.get("action"), ctx.env) if "action" in kw else None
                    c.check(act == "store_true", site + ":action", "a flag that is False unless given", "action=%r" % (act,),
                            "%s declares --append with action %r: it must be a plain flag that is False unless given" % (rel, act), repo.loc(f, x))
                else:
                    c.ok(site + ":default", "not given means None", repo.loc(f, x))


def cli1(ctx, c):
    cli_args(ctx, c)
    """CLI-1 wiring of assembler.main: CoCoFile from the program; per-switch save blocks; no-name guard. CLI-2 handlers."""
    repo = ctx.repo
    fn = repo.func("assembler.py", "main")
    where = repo.loc(fn, fn.node)
    from ..inline import flatten
    orig_fn_node = fn.node
    main_flat = flatten(repo, fn, depth=2)

    class _F:
        pass
    fnx = _F()
    fnx.node = main_flat
    prog = None
    for n in ast.walk(main_flat):
        if isinstance(n, ast.Assign) and isinstance(n.value, ast.Call) and U(n.value.func) == "Program":
            prog = U(n.targets[0])
    cf = [n for n in ast.walk(main_flat) if isinstance(n, ast.Assign) and isinstance(n.value, ast.Call) and U(n.value.func) == "CoCoFile"]
    if prog is None or len(cf) != 1:
        c.undecided("assembler.main", "Program/CoCoFile construction not unique", "", where)
        return
    cfvar = U(cf[0].targets[0])
    kw = {k.arg: U(k.value) for k in cf[0].value.keywords}
    want = {"name": "%s.name or args.name" % prog, "load_addr": "%s.origin" % prog, "exec_addr": "%s.origin" % prog, "data": "%s.get_binary_array()" % prog}
    from ..consteval import fold, NotConst
    knodes = {k.arg: k.value for k in cf[0].value.keywords}
    # the fields of the file are decided by CLI-5 (evaluation of main per configuration) whenever that evaluation is complete; the statement-level
    # reading below is the fallback
    from ..report import Collector as _Col, UNDECIDED as _UND
    sub5 = ctx.cache.get(("rule", "CLI-5"))
    if sub5 is None:
        sub5 = _Col("CLI-5")
        try:
            cli5(ctx, sub5)
        except Exception:
            sub5 = None
    by_evaluation = sub5 is not None and sub5.insts and all(i.verdict != _UND for i in sub5.insts)
    if by_evaluation:
        c.ok("assembler.main:CoCoFile", "fields decided by evaluation (CLI-5)", repo.loc(fn, cf[0]), nontrivial=False)
    for k, v in (want.items() if not by_evaluation else []):
        if k not in kw:
            c.undecided("assembler.main:CoCoFile.%s" % k, "keyword-not-passed", "", repo.loc(fn, cf[0]))
            continue
        if kw.get(k) == v:
            c.ok("assembler.main:CoCoFile.%s" % k, v, repo.loc(fn, cf[0]))
            continue
        if k == "name":
            # NAM first, --name as fallback: decide by the value table of the expression
            try:
                tbl = {(pn, an): fold(knodes[k], {"%s.name" % prog: pn, "args.name": an}) for pn in (None, "", "P") for an in (None, "A")}
                good = all(tbl[(pn, an)] == (pn if pn else an) for pn, an in tbl)
                c.check(good, "assembler.main:CoCoFile.name", "NAM operand, else --name", "name = %s" % kw.get(k),
                        "assembler.py names the saved file %s; the NAM operand must win and --name is the fallback" % kw.get(k), repo.loc(fn, cf[0]))
            except NotConst:
                c.undecided("assembler.main:CoCoFile.name", "name-expression-not-evaluable", kw.get(k), repo.loc(fn, cf[0]))
            continue
        mentions_prog = prog in kw.get(k)
        if re.fullmatch(r"%s\.\w+(\(\))?" % re.escape(prog), kw.get(k)) or not mentions_prog:
            c.finding("assembler.main:CoCoFile.%s" % k, "%s = %s" % (k, kw.get(k)), "assembler.py builds the saved file with %s=%s; it must be %s" % (k, kw.get(k), v), repo.loc(fn, cf[0]))
        else:
            c.undecided("assembler.main:CoCoFile.%s" % k, "expression-not-recognised", kw.get(k), repo.loc(fn, cf[0]))
    for k, v in ((("type", 0x02), ("data_type", 0x00)) if not by_evaluation else ()):
        node = next((x.value for x in cf[0].value.keywords if x.arg == k), None)
        val = try_fold(node.args[0], ctx.env) if isinstance(node, ast.Call) and U(node.func) == "NumericValue" and node.args else None
        if val is None:
            c.undecided("assembler.main:CoCoFile.%s" % k, "value-not-constant", U(node) if node is not None else "", repo.loc(fn, cf[0]))
            continue
        c.check(val == v, "assembler.main:CoCoFile.%s" % k, "%#04x" % v, "%s = %s" % (k, U(node) if node is not None else None),
                "assembler.py marks the saved file with %s=%s; a machine-language binary file is %s=%02X" % (k, U(node) if node is not None else None, k, v), repo.loc(fn, cf[0]))
    # process() runs on that program with the lines read from args.filename
    pc = [n for n in ast.walk(main_flat) if isinstance(n, ast.Call) and U(n.func) == "%s.process" % prog]
    if not by_evaluation:
      c.check(len(pc) == 1 and re.fullmatch(r"\w+\.get_buffer\(\)", U(pc[0].args[0])) is not None, "assembler.main:process", "the same Program assembles the source read", "process calls %s" % [U(x) for x in pc],
            "assembler.py does not assemble the source it read with the Program it saves", where)
    # per switch blocks
    blocks = [n for n in body_without_doc(main_flat) if isinstance(n, ast.If) and re.fullmatch(r"args\.to_(bin|cas|dsk)", U(n.test))]
    if by_evaluation:
        blocks = []         # per-switch sequence, file added and no-name guard: decided by CLI-5
    else:
        c.floor("save blocks", len(blocks), 3)
    for b in blocks:
        sw = U(b.test).split(".")[1]
        adds = _calls(b, ".add_coco_file")
        if not adds:
            c.undecided("assembler.main:%s:adds" % sw, "add-call-not-recognised", "", repo.loc(fn, b))
        else:
            c.check(len(adds) == 1 and [U(a) for a in adds[0].args] == [cfvar], "assembler.main:%s:adds" % sw, "adds the assembled file", "adds %s" % [U(a) for a in adds],
                    "assembler.py --%s adds %s instead of the assembled program" % (sw, [U(a) for a in adds]), repo.loc(fn, b))
        if sw in ("to_cas", "to_dsk"):
            gb = CFG(ast.FunctionDef(name="b", args=main_flat.args, body=b.body, decorator_list=[], lineno=b.lineno))
            ctor_nodes = gb.find(lambda k, n: k == "stmt" and "VirtualFile(" in U(n))
            name_tests = gb.find(lambda k, n: k == "test" and re.fullmatch(r"not %s\.name|%s\.name" % (re.escape(cfvar), re.escape(cfvar)), U(n)) is not None)
            guarded = bool(ctor_nodes) and bool(name_tests) and all(
                any(x not in gb.reachable(avoid_edges=[(t, not U(gb.nodes[t][2]).startswith("not"))]) for t in name_tests) for x in ctor_nodes)
            if guarded:
                c.ok("assembler.main:%s:no-name" % sw, "without a name nothing is created", repo.loc(fn, b))
            elif ctor_nodes and not name_tests and ".name" not in U(b) and ".name" not in U(main_flat).split("CoCoFile(", 1)[-1].split(U(b.test), 1)[0]:
                c.finding("assembler.main:%s:no-name" % sw, "no test of the file name before the container is built",
                          "assembler.py --%s is not guarded by the no-name check: a file without a name would be created" % sw, repo.loc(fn, b))
            else:
                c.undecided("assembler.main:%s:no-name" % sw, "guard-shape-not-recognised", "", repo.loc(fn, b))
        tries = [n for n in b.body if isinstance(n, ast.Try)]
        if tries:
            for h in tries[0].handlers:
                reports = any(isinstance(x, ast.Call) and U(x.func) == "print" and any(U(a) == (h.name or "") for a in x.args) for x in ast.walk(h))
                c.check(reports, "assembler.main:%s:handler" % sw, "the error is shown to the user", "handler does not print the error",
                        "assembler.py --%s swallows the save error without telling the user why the target was left alone" % sw, repo.loc(fn, h))
    # CLI-2: process() is wrapped; handlers exit non-zero; saves come after
    tr = next((n for n in body_without_doc(main_flat) if isinstance(n, ast.Try) and any(U(x.func).endswith(".process") for x in ast.walk(n) if isinstance(x, ast.Call))), None)
    if tr is None:
        c.finding("assembler.main:process-handler", "process() is not wrapped", "assembler.py calls Program.process outside any handler", where)
    else:
        caught = sorted({U(e) for h in tr.handlers if h.type is not None for e in (h.type.elts if isinstance(h.type, ast.Tuple) else [h.type])})
        c.check(set(caught) >= {"ParseError", "TranslationError"} or "Exception" in caught, "assembler.main:process-handler", "catches ParseError and TranslationError", "catches %s" % caught,
                "assembler.py catches %s around process()" % caught, repo.loc(fn, tr))
        te = repo.func("assembler.py", "throw_error") if "throw_error" in repo.module("assembler.py").funcs else None
        if te is None:
            c.undecided("throw_error:exit", "function-not-found", "", where)
            return
        for h in tr.handlers:
            calls = [U(x.func) for x in ast.walk(h) if isinstance(x, ast.Call)]
            if "throw_error" in calls or "sys.exit" in calls:
                c.ok("assembler.main:handler:%s" % U(h.type), "ends in a non-zero exit", repo.loc(fn, h))
            elif not calls or set(calls) <= {"print", "str", "format"}:
                c.finding("assembler.main:handler:%s" % U(h.type), "handler calls %s" % calls, "the %s handler does not terminate the command" % U(h.type), repo.loc(fn, h))
            else:
                c.undecided("assembler.main:handler:%s" % U(h.type), "handler-shape-not-recognised", str(calls), repo.loc(fn, h))
        ex = [n for n in ast.walk(te.node) if isinstance(n, ast.Call) and U(n.func) == "sys.exit"]
        codes = [try_fold(x.args[0], ctx.env) if x.args else 0 for x in ex]
        last = body_without_doc(te.node)[-1]
        if any(k is None for k in codes):
            c.undecided("throw_error:exit", "exit-code-not-constant", str([U(x) for x in ex])[:80], repo.loc(te, te.node))
        else:
          c.check(bool(ex) and all(isinstance(k, int) and k != 0 for k in codes) and isinstance(last, ast.Expr) and U(last.value.func) == "sys.exit", "throw_error:exit", "sys.exit(non-zero) on every path", "exit codes %s" % codes,
                "throw_error exits with %s; a diagnostic must end the command with a non-zero status before any output file is touched" % codes, repo.loc(te, te.node))
        idx = body_without_doc(main_flat).index(tr)
        late = all(body_without_doc(main_flat).index(b) > idx for b in blocks)
        c.check(late, "assembler.main:order", "files are saved only after process() succeeded", "a save block precedes process()", "assembler.py saves before the program was assembled", where)


def cli3(ctx, c):
    """CLI-3 file_util conversions: loops carry every selected file; --files compared with the same normalisation on both sides; --to_bin refusal."""
    from ..inline import flatten
    repo = ctx.repo
    fn0 = repo.func("file_util.py", "main")
    where = repo.loc(fn0, fn0.node)
    node = flatten(repo, fn0, depth=2)
    # when CLI-4 has evaluated every configuration of file_util.main, selection, order, case and the refusal are decided there
    from ..report import Collector as _Col4, UNDECIDED as _UND4
    sub4 = ctx.cache.get(("rule", "CLI-4"))
    if sub4 is None:
        sub4 = _Col4("CLI-4")
        try:
            cli4(ctx, sub4)
        except Exception:
            sub4 = None
    if sub4 is not None and sub4.insts and all(i.verdict != _UND4 for i in sub4.insts):
        c.ok("file_util.main", "selection, order, letter case, save-once and the --to_bin refusal are decided by evaluation (CLI-4)", where, nontrivial=False)
        return
    # the include list and its case normalisation
    lst = None
    norm = []
    for n in ast.walk(node):
        if isinstance(n, ast.Assign) and "args.files" in U(n.value) and isinstance(n.targets[0], ast.Name):
            lst = n.targets[0].id
            norm = [x.func.attr for x in ast.walk(n.value) if isinstance(x, ast.Call) and isinstance(x.func, ast.Attribute) and x.func.attr in ("upper", "lower", "casefold")]
    if lst is None:
        c.undecided("file_util.main:files", "include-list-not-found", "", where)
        return
    case_list = sorted(set(norm))
    tests = [n for n in ast.walk(node) if isinstance(n, ast.Compare) and len(n.ops) == 1 and isinstance(n.ops[0], (ast.In, ast.NotIn)) and U(n.comparators[0]) == lst]
    c.floor("--files membership tests", len(tests), 3)

    def case_chain(expr, depth=0):
        chain = [x.func.attr for x in ast.walk(expr) if isinstance(x, ast.Call) and isinstance(x.func, ast.Attribute) and x.func.attr in ("upper", "lower", "casefold")]
        if depth < 3:
            for nm in {x.id for x in ast.walk(expr) if isinstance(x, ast.Name)}:
                for a_ in ast.walk(node):
                    if isinstance(a_, ast.Assign) and isinstance(a_.targets[0], ast.Name) and a_.targets[0].id == nm and getattr(a_, "lineno", 0) <= getattr(expr, "lineno", 10 ** 9):
                        chain += case_chain(a_.value, depth + 1)
        return chain
    for i, t in enumerate(tests):
        case_lhs = sorted(set(case_chain(t.left)))
        c.check(case_lhs == case_list, "file_util.main:files@%d" % (i + 1), "both sides %s-cased" % (case_list or ["not"]), "list %s-cased, stored name %s-cased" % (case_list, case_lhs or "not"),
                "file_util compares the stored file name (%s) with the --files list (%s): names differing only in letter case do not match" % (case_lhs or "as is", case_list),
                "file_util.py:%d" % getattr(t, "lineno", 0))
    # conversion loops
    for sw in ("to_cas", "to_dsk"):
        blk = next((n for n in ast.walk(node) if isinstance(n, ast.If) and U(n.test) == "args.%s" % sw), None)
        if blk is None:
            c.undecided("file_util.main:%s" % sw, "switch-block-not-found", "", where)
            continue
        loops = [n for n in blk.body if isinstance(n, ast.For)]
        wb = "file_util.py:%d" % getattr(blk, "lineno", 0)
        if len(loops) != 1:
            c.undecided("file_util.main:%s:loop" % sw, "loop-not-found", "", wb)
            continue
        lp = loops[0]
        it = U(lp.iter)
        # resolve a local holding the listing
        m = re.fullmatch(r"enumerate\((\w+)(, start=\d+)?\)|(\w+)", it)
        if m and (m.group(1) or m.group(3)):
            nm = m.group(1) or m.group(3)
            defs = [a_ for a_ in ast.walk(blk) if isinstance(a_, ast.Assign) and U(a_.targets[0]) == nm] or \
                [a_ for a_ in ast.walk(node) if isinstance(a_, ast.Assign) and U(a_.targets[0]) == nm]
            driven = [a_ for a_ in defs for x in ast.walk(a_.value) if isinstance(x, (ast.ListComp, ast.GeneratorExp)) and len(x.generators) >= 2
                      and U(x.generators[0].iter) == lst]
            if driven:
                c.finding("file_util.main:%s:loop" % sw, "the files copied are enumerated from the --files list",
                          "file_util --%s builds the selection as `%s`: the outer loop runs over --files, so the files are copied in the order of the switch and once per "
                          "mention of a name, not once each in the order of the source image" % (sw, U(driven[0].value)[:80]), "file_util.py:%d" % driven[0].lineno)
                continue
            if len(defs) > 1:
                c.undecided("file_util.main:%s:loop" % sw, "the listing is rebound before the loop", "; ".join(U(a_.value)[:40] for a_ in defs), wb)
                continue
            for a_ in defs:
                it = it.replace(nm, U(a_.value))
        tv = [U(e) for e in lp.target.elts] if isinstance(lp.target, ast.Tuple) else [U(lp.target)]
        adds = _calls(lp, ".add_coco_file")
        whole = re.fullmatch(r"enumerate\(\w+\.list_files\(\)(, start=\d+)?\)|\w+\.list_files\(\)", it) is not None
        if not whole and re.search(r"\[1:\]|\[:-1\]|reversed|sorted|\[::", it):
            c.finding("file_util.main:%s:loop" % sw, "iterates %s" % it, "file_util --%s iterates %s instead of the whole source listing in order" % (sw, it), wb)
        elif not whole or not adds:
            c.undecided("file_util.main:%s:loop" % sw, "loop-shape-not-recognised", it, wb)
        else:
            c.check(len(adds) == 1 and U(adds[0].args[0]) == tv[-1], "file_util.main:%s:loop" % sw, "every listed file, in order, is added itself", "adds %s" % [U(a_.args[0]) for a_ in adds],
                    "file_util --%s adds %s instead of the file it is iterating over" % (sw, [U(a_.args[0]) for a_ in adds]), wb)
        saves = _calls(blk, ".save_virtual_file")
        in_loop = [s_ for s_ in saves if any(s_ is x for x in ast.walk(lp))]
        if len(saves) == 1 and not in_loop:
            c.ok("file_util.main:%s:save" % sw, "saved once after the loop", wb)
        elif in_loop or not saves:
            c.finding("file_util.main:%s:save" % sw, "save inside the loop / missing", "file_util --%s does not save once after adding all files" % sw, wb)
        else:
            c.undecided("file_util.main:%s:save" % sw, "save-shape-not-recognised", "", wb)
    blk = next((n for n in ast.walk(node) if isinstance(n, ast.If) and U(n.test) == "args.to_bin"), None)
    if blk is not None:
        g = CFG(ast.FunctionDef(name="b", args=node.args, body=blk.body, decorator_list=[], lineno=blk.lineno))
        tests_ = g.find(lambda k, n: k == "test" and re.fullmatch(r"len\(\w+\) (>|>=|!=) \d+", U(n)) is not None)
        adds = g.find(lambda k, n: k == "stmt" and ".add_coco_file(" in U(n))
        savs = g.find(lambda k, n: k == "stmt" and ".save_virtual_file(" in U(n))
        wb = "file_util.py:%d" % getattr(blk, "lineno", 0)
        if not tests_:
            c.undecided("file_util.main:to_bin:refusal", "count-test-not-recognised", "", wb)
        else:
            t0 = g.nodes[tests_[0]][2]
            k = try_fold(t0.comparators[0])
            op = type(t0.ops[0]).__name__
            refuses_from = k + 1 if op == "Gt" else (k if op == "GtE" else None)
            ok = all(x not in g.reachable(avoid_edges=[(t, False) for t in tests_]) for x in adds + savs) and g.only_raises_after(tests_[0], True)
            if refuses_from is None:
                c.undecided("file_util.main:to_bin:refusal", "count-test-form", U(t0), wb)
            else:
                c.check(ok and refuses_from == 2, "file_util.main:to_bin:refusal", "more than one file: exit before any add/save", "refuses from %s files on; dominated: %s" % (refuses_from, ok),
                        "file_util --to_bin must refuse an image holding more than one file before adding or saving anything (refuses from %s files, refusal dominates add/save: %s)" % (refuses_from, ok), wb)
            exits = [x for x in ast.walk(blk) if isinstance(x, ast.Call) and U(x.func) == "sys.exit"]
            codes = [try_fold(x.args[0]) if x.args else 0 for x in exits]
            if exits:
                c.check(all(cd not in (0, None) for cd in codes), "file_util.main:to_bin:exit-code", "non-zero exit", "exit codes %s" % codes, "file_util --to_bin refuses with exit code %s" % codes, wb)
    tr = next((n for n in body_without_doc(node) if isinstance(n, ast.Try)), None)
    if tr is not None:
        for h in tr.handlers:
            prints = any(isinstance(x, ast.Call) and U(x.func) == "print" for x in ast.walk(h))
            ex = [try_fold(x.args[0]) if x.args else 0 for x in ast.walk(h) if isinstance(x, ast.Call) and U(x.func) == "sys.exit"]
            if prints and ex:
                c.check(all(e not in (0, None) for e in ex), "file_util.main:handler", "reports the error and exits non-zero", "exit codes %s" % ex,
                        "file_util's error handler exits with %s" % ex, "file_util.py:%d" % h.lineno)
            elif not prints and not ex and all(isinstance(x, ast.Pass) for x in h.body):
                c.finding("file_util.main:handler", "errors swallowed", "file_util's error handler neither reports nor exits", "file_util.py:%d" % h.lineno)
            else:
                c.undecided("file_util.main:handler", "handler-shape-not-recognised", "", "file_util.py:%d" % h.lineno)


READERS = {"CassetteFile": ("list_files", "read_file", "read_blocks", "read_coco_file_name", "skip_to_sequence"),
           "DiskFile": ("list_files", "read_data", "read_sequence", "validate_sequence", "calculate_file_length", "seek_granule", "granule_in_use", "directory_entry_in_use",
                        "find_empty_granule", "find_empty_directory_entry"),
           "BinaryFile": ("list_files",), "VirtualFileContainer": ("read_word", "get_buffer"), "VirtualFile": ("list_files", "get_coco_files")}


def vf8(ctx, c):
    """VF-8 listing an image has no effect on the container (no cached results, no stores), and lets validation errors propagate (sniffing depends on them)."""
    repo = ctx.repo
    n = 0
    for cls, meths in READERS.items():
        if not repo.has_cls(cls):
            continue
        C = repo.cls(cls)
        for mname in meths:
            f = C.methods.get(mname)
            if f is None:
                continue
            n += 1
            site = "%s.%s" % (cls, mname)
            bad = []
            for x in ast.walk(f.node):
                tg = []
                if isinstance(x, ast.Assign):
                    tg = x.targets
                elif isinstance(x, (ast.AugAssign, ast.AnnAssign)):
                    tg = [x.target]
                for t in tg:
                    for e in (t.elts if isinstance(t, (ast.Tuple, ast.List)) else [t]):
                        r = e
                        while isinstance(r, (ast.Attribute, ast.Subscript)):
                            r = r.value
                        if isinstance(e, (ast.Attribute, ast.Subscript)) and isinstance(r, ast.Name) and r.id in ("self", "cls"):
                            bad.append(x)
                if isinstance(x, ast.Call) and isinstance(x.func, ast.Attribute) and U(x.func.value).startswith("self.") and \
                        x.func.attr in ("append", "extend", "insert", "pop", "remove", "clear", "update", "setdefault", "add"):
                    bad.append(x)
            if bad:
                c.finding(site, "stores into the container: %s" % U(bad[0])[:50],
                          "%s.%s, a reader, modifies the container (%s): results cached or state changed while listing go stale when files are added, and differ between first and later calls"
                          % (cls, mname, U(bad[0])[:70]), repo.loc(f, bad[0]))
            else:
                c.ok(site, "no store to the container", repo.loc(f, f.node))
            for x in ast.walk(f.node):
                if isinstance(x, ast.Try):
                    for h in x.handlers:
                        names = ["bare"] if h.type is None else [U(e).split(".")[-1] for e in (h.type.elts if isinstance(h.type, ast.Tuple) else [h.type])]
                        reraises = any(isinstance(y, ast.Raise) for y in ast.walk(h))
                        if not reraises and any(nm in ("bare", "Exception", "BaseException", "VirtualFileValidationError") for nm in names) and cls in ("CassetteFile", "DiskFile"):
                            c.finding(site + ":handler", "validation errors swallowed (%s)" % ",".join(names),
                                      "%s.%s catches %s and carries on: get_coco_files tells a disk from a cassette from raw bytes by these errors, so content of another kind is listed as this kind"
                                      % (cls, mname, ",".join(names)), repo.loc(f, h))
    c.floor("reader methods examined", n, 12)


RULES = {"VF-9": vf9, "CLI-5": cli5, "CLI-4": cli4, "VF-5": vf5, "VF-8": vf8, "VF-1": vf1, "VF-2": vf2, "VF-3": vf3, "VF-4": vf4, "CLI-1": cli1, "CLI-3": cli3}
