"""DET rules: effect analysis - everything an assembly writes is reachable only from objects created during that call."""
import ast

from ..model import U, AnalysisError, Module, Class, Func

MUTATORS = {"append", "extend", "insert", "pop", "remove", "clear", "sort", "reverse", "update", "setdefault", "popitem", "add", "discard", "__setitem__", "__delitem__"}
CORE_PREFIX = "cocoasm/"
ALLOWED_IMPORTS = {"re", "copy", "abc", "enum", "typing", "os", "argparse", "sys"}
NONDET_CALLS = {"id", "hash", "input"}
NONDET_MODULES = {"random", "time", "datetime", "uuid", "secrets", "glob", "tempfile", "threading", "multiprocessing", "socket", "subprocess"}
MEMO_DECORATORS = {"lru_cache", "cache", "cached_property", "functools.lru_cache", "functools.cache", "functools.cached_property"}


def is_mutable_expr(n):
    if isinstance(n, (ast.List, ast.Dict, ast.Set, ast.ListComp, ast.DictComp, ast.SetComp)):
        return True
    if isinstance(n, ast.Call) and U(n.func) in ("list", "dict", "set", "bytearray", "defaultdict", "collections.defaultdict", "OrderedDict", "deque"):
        return True
    if isinstance(n, ast.BinOp) and isinstance(n.op, ast.Mult) and (isinstance(n.left, ast.List) or isinstance(n.right, ast.List)):
        return True
    return False


def root_of(n):
    while isinstance(n, (ast.Attribute, ast.Subscript)):
        n = n.value
    return n


def mutations(fn_node):
    """yield (kind, target expression node, statement node) for every in-place mutation in a function:
    subscript store/delete, attribute store, augmented assignment to a subscript/attribute, mutator call"""
    for n in ast.walk(fn_node):
        if isinstance(n, (ast.Assign, ast.AnnAssign)):
            tg = n.targets if isinstance(n, ast.Assign) else [n.target]
            for t in tg:
                for e in (t.elts if isinstance(t, (ast.Tuple, ast.List)) else [t]):
                    if isinstance(e, ast.Subscript):
                        yield "subscript-store", e.value, n
                    elif isinstance(e, ast.Attribute):
                        yield "attribute-store", e, n
        elif isinstance(n, ast.AugAssign):
            if isinstance(n.target, ast.Subscript):
                yield "subscript-store", n.target.value, n
            elif isinstance(n.target, ast.Attribute):
                yield "attribute-store", n.target, n
            elif isinstance(n.target, ast.Name):
                yield "name-augassign", n.target, n
        elif isinstance(n, ast.Delete):
            for t in n.targets:
                if isinstance(t, ast.Subscript):
                    yield "subscript-delete", t.value, n
                elif isinstance(t, ast.Attribute):
                    yield "attribute-delete", t, n
        elif isinstance(n, ast.Call) and isinstance(n.func, ast.Attribute) and n.func.attr in MUTATORS:
            yield "mutator-call:" + n.func.attr, n.func.value, n


def local_names(fn_node):
    names = {a.arg for a in fn_node.args.args + fn_node.args.kwonlyargs + fn_node.args.posonlyargs}
    if fn_node.args.vararg:
        names.add(fn_node.args.vararg.arg)
    if fn_node.args.kwarg:
        names.add(fn_node.args.kwarg.arg)
    for n in ast.walk(fn_node):
        if isinstance(n, ast.Name) and isinstance(n.ctx, ast.Store):
            names.add(n.id)
        elif isinstance(n, ast.arg):
            names.add(n.arg)
    return names


def _module_mutables(repo):
    """module-level bindings by module: name -> value node (every top-level assign)"""
    out = {}
    for m in repo.modules.values():
        out[m.rel] = dict(m.assigns)
    return out


def _class_level(repo):
    out = {}
    for c in repo.classes.values():
        for name, val in c.assigns.items():
            out[(c.name, name)] = val
    return out


def _analyse(ctx):
    def build():
        repo = ctx.repo
        findings = []   # (rule, site, fact, text, where)
        stats = {"functions": 0, "mutations": 0, "module_bindings": 0, "class_attrs": 0, "defaults": 0}
        modlevel = _module_mutables(repo)
        classlevel = _class_level(repo)
        stats["module_bindings"] = sum(len(v) for v in modlevel.values())
        stats["class_attrs"] = len(classlevel)
        # imported names: name -> defining repo module
        for m in repo.modules.values():
            imported = {}
            for mod, name, asname in m.imports:
                if name and mod.replace(".", "/") + ".py" in repo.modules:
                    imported[asname or name] = mod.replace(".", "/") + ".py"
            for f in list(m.funcs.values()) + [f for c in m.classes.values() for f in c.methods.values()]:
                stats["functions"] += 1
                node = f.node
                where0 = "%s:%d" % (m.rel, node.lineno)
                locs = local_names(node)
                globals_declared = {g for n in ast.walk(node) if isinstance(n, ast.Global) for g in n.names}
                for g in sorted(globals_declared):
                    findings.append(("DET-1", f.q, "global %s" % g, "%s declares `global %s` and can rebind module state" % (f.q, g), where0))
                # aliases of shared objects inside this function: local = <module/class level mutable>
                aliases = {}
                for n in ast.walk(node):
                    if isinstance(n, ast.Assign) and len(n.targets) == 1:
                        src = _shared_source(repo, m, imported, classlevel, modlevel, n.value, locs, f)
                        if src:
                            aliases[U(n.targets[0])] = src
                for kind, tgt, st in mutations(node):
                    stats["mutations"] += 1
                    w = "%s:%d" % (m.rel, st.lineno)
                    if kind == "name-augassign":
                        if tgt.id in globals_declared:
                            findings.append(("DET-1", f.q, "rebinds global %s" % tgt.id, "%s rebinds the module-level name %s" % (f.q, tgt.id), w))
                        continue
                    recv = tgt if not kind.startswith("attribute") else tgt.value
                    # rebinding an attribute of a class object (Class.x = v, cls.x = v, type(self).x = v)
                    if kind.startswith("attribute"):
                        base = tgt.value
                        cname = None
                        if isinstance(base, ast.Name) and base.id in repo.classes and base.id not in locs:
                            cname = base.id
                        elif isinstance(base, ast.Name) and base.id == "cls" and f.is_classmethod and f.cls is not None:
                            cname = f.cls.name
                        elif U(base) in ("type(self)", "self.__class__"):
                            cname = f.cls.name if f.cls else "?"
                        if cname:
                            findings.append(("DET-2", f.q, "rebinds class attribute %s.%s" % (cname, tgt.attr),
                                             "%s assigns %s.%s: a class attribute is shared by every assembly in the process, so what one program sets is seen by the next (%s)"
                                             % (f.q, cname, tgt.attr, U(st)[:60]), w))
                            continue
                    # what object is being mutated?
                    src = _shared_source(repo, m, imported, classlevel, modlevel, recv, locs, f)
                    if src is None and U(recv) in aliases:
                        src = aliases[U(recv)] + " (through alias %s)" % U(recv)
                    if src:
                        rule = "DET-2" if src.startswith("class attribute") else "DET-1"
                        findings.append((rule, f.q, "%s of %s" % (kind.split(":")[0], src.split(" (")[0]),
                                         "%s mutates %s (%s): state shared by every assembly / every container in the process" % (f.q, src, U(st)[:60]), w))
                # DET-3 mutable defaults
                args = node.args
                params = args.posonlyargs + args.args
                defaults = [None] * (len(params) - len(args.defaults)) + list(args.defaults)
                kwd = list(zip(args.kwonlyargs, args.kw_defaults))
                for a, d in list(zip(params, defaults)) + kwd:
                    if d is None:
                        continue
                    shared_obj = is_mutable_expr(d) or (isinstance(d, ast.Call) and isinstance(d.func, ast.Name) and d.func.id[:1].isupper())
                    if not shared_obj:
                        continue
                    stats["defaults"] += 1
                    # aliases of the parameter: self.x = a
                    names = {a.arg}
                    for n in ast.walk(node):
                        if isinstance(n, ast.Assign) and isinstance(n.value, ast.Name) and n.value.id == a.arg:
                            for t in n.targets:
                                names.add(U(t))
                    for kind, tgt, st in mutations(node):
                        if kind == "name-augassign":
                            continue
                        recv = tgt if not kind.startswith("attribute") else tgt.value
                        if U(recv) in names and not (kind == "attribute-store" and U(recv).startswith("self") and U(recv) == "self"):
                            if kind == "attribute-store" and U(tgt) in names:
                                continue      # self.x = param  (binding, not mutation)
                            findings.append(("DET-3", f.q, "mutates default of %s" % a.arg,
                                             "%s mutates the object bound to parameter %s, whose default `%s` is created once and shared by all calls (%s)"
                                             % (f.q, a.arg, U(d), U(st)[:60]), "%s:%d" % (m.rel, st.lineno)))
                    # the default object stored in an instance attribute and mutated by another method of the class family
                    if f.cls is not None:
                        attrs = [U(t)[5:] for n2 in ast.walk(node) if isinstance(n2, ast.Assign) and isinstance(n2.value, ast.Name) and n2.value.id == a.arg
                                 for t in n2.targets if U(t).startswith("self.") and U(t).count(".") == 1]
                        fam = [repo.classes[x] for x in repo.ancestors(f.cls.name) if x in repo.classes] + [repo.classes[x] for x in repo.subclasses(f.cls.name, strict=True)]
                        for attr in attrs:
                            hit = None
                            for k in fam:
                                for g2 in k.methods.values():
                                    for kind, tgt, st in mutations(g2.node):
                                        if kind == "name-augassign":
                                            continue
                                        recv = tgt if not kind.startswith("attribute") else tgt.value
                                        if U(recv) == "self.%s" % attr:
                                            hit = hit or (g2, st)
                            if hit and is_mutable_expr(d):
                                findings.append(("DET-3", f.q, "default of %s stored in self.%s and mutated by %s" % (a.arg, attr, hit[0].q),
                                                 "%s stores parameter %s (default `%s`, created once) in self.%s without copying and %s mutates it (%s): every object built with the default shares one list"
                                                 % (f.q, a.arg, U(d), attr, hit[0].q, U(hit[1])[:50]), "%s:%d" % (m.rel, node.lineno)))
                # DET-6
                for d in node.decorator_list:
                    dn = U(d.func) if isinstance(d, ast.Call) else U(d)
                    if dn in MEMO_DECORATORS:
                        findings.append(("DET-6", f.q, "memoised with %s" % dn, "%s is memoised (%s): results survive between assemblies" % (f.q, dn), where0))
                # DET-5 set iteration / nondeterministic calls
                setvars = set()
                for n in ast.walk(node):
                    if isinstance(n, ast.Assign) and len(n.targets) == 1 and isinstance(n.targets[0], ast.Name):
                        v = n.value
                        if isinstance(v, (ast.Set, ast.SetComp)) or (isinstance(v, ast.Call) and U(v.func) in ("set", "frozenset")):
                            setvars.add(n.targets[0].id)
                        if isinstance(v, ast.BinOp) and isinstance(v.op, (ast.BitOr, ast.BitAnd, ast.Sub, ast.BitXor)) and \
                                any(isinstance(x, ast.Name) and x.id in setvars for x in (v.left, v.right)):
                            setvars.add(n.targets[0].id)
                for n in ast.walk(node):
                    # taking "an" element of a set: which one depends on the hash seed
                    if isinstance(n, ast.Call) and isinstance(n.func, ast.Attribute) and n.func.attr == "pop" and not n.args and isinstance(n.func.value, ast.Name) \
                            and n.func.value.id in setvars and (m.rel.startswith(CORE_PREFIX) or m.rel in ("assembler.py",)):
                        findings.append(("DET-5", f.q, "takes an arbitrary element of a set (%s)" % U(n)[:30],
                                         "%s calls %s on a set: which element comes out depends on the hash seed of the process, so the value differs between runs of the same source"
                                         % (f.q, U(n)[:40]), "%s:%d" % (m.rel, n.lineno)))
                    if isinstance(n, ast.Call) and U(n.func) in ("next",) and n.args and isinstance(n.args[0], ast.Call) and U(n.args[0].func) == "iter" and n.args[0].args \
                            and isinstance(n.args[0].args[0], ast.Name) and n.args[0].args[0].id in setvars and m.rel.startswith(CORE_PREFIX):
                        findings.append(("DET-5", f.q, "takes an arbitrary element of a set (%s)" % U(n)[:30],
                                         "%s takes next(iter(<set>)): the element depends on the hash seed" % f.q, "%s:%d" % (m.rel, n.lineno)))
                for n in ast.walk(node):
                    its = []
                    if isinstance(n, ast.For):
                        its.append(n.iter)
                    if isinstance(n, (ast.ListComp, ast.GeneratorExp, ast.DictComp)):
                        its += [g.iter for g in n.generators]
                    if isinstance(n, ast.Call) and U(n.func) in ("list", "tuple", "enumerate", "'".join(["", ""])):
                        its += n.args[:1]
                    if isinstance(n, ast.Call) and isinstance(n.func, ast.Attribute) and n.func.attr == "join":
                        its += n.args[:1]
                    for it in its:
                        isset = isinstance(it, (ast.Set, ast.SetComp)) or (isinstance(it, ast.Call) and U(it.func) in ("set", "frozenset")) or \
                            (isinstance(it, ast.Name) and it.id in setvars)
                        if isset and m.rel.startswith(CORE_PREFIX) or isset and m.rel in ("assembler.py",):
                            findings.append(("DET-5", f.q, "iterates over a set (%s)" % U(it)[:30],
                                             "%s iterates over a set (%s): the order depends on the hash seed, so listing/symbol order or output can differ between processes"
                                             % (f.q, U(it)[:40]), "%s:%d" % (m.rel, n.lineno)))
                    if isinstance(n, ast.Call) and isinstance(n.func, ast.Name) and n.func.id in NONDET_CALLS and n.func.id not in locs and m.rel.startswith(CORE_PREFIX):
                        findings.append(("DET-5", f.q, "calls %s()" % n.func.id, "%s calls %s(): the result differs between runs" % (f.q, n.func.id), "%s:%d" % (m.rel, n.lineno)))
                    if isinstance(n, ast.Attribute) and U(n) in ("os.environ",) and m.rel.startswith(CORE_PREFIX):
                        findings.append(("DET-5", f.q, "reads os.environ", "%s reads the process environment" % f.q, "%s:%d" % (m.rel, n.lineno)))
            if m.rel.startswith(CORE_PREFIX):
                for mod, name, asname in m.imports:
                    top = (mod or "").split(".")[0]
                    if top in NONDET_MODULES:
                        findings.append(("DET-5", m.rel, "imports %s" % top, "%s imports %s, a source of run-dependent values" % (m.rel, top), m.rel))
        # instance attribute aliasing a shared object, mutated elsewhere in the class hierarchy (DET-2)
        for c in repo.classes.values():
            m = c.module
            imported = {}
            for mod, name, asname in m.imports:
                if name and mod.replace(".", "/") + ".py" in repo.modules:
                    imported[asname or name] = mod.replace(".", "/") + ".py"
            alias_attrs = {}
            for f in c.methods.values():
                locs = local_names(f.node)
                for n in ast.walk(f.node):
                    if isinstance(n, ast.Assign) and len(n.targets) == 1 and isinstance(n.targets[0], ast.Attribute) and U(n.targets[0].value) == "self":
                        src = _shared_source(repo, m, imported, classlevel, modlevel, n.value, locs, f)
                        if src:
                            alias_attrs[n.targets[0].attr] = (src, f, n)
            if not alias_attrs:
                continue
            family = [repo.classes[x] for x in repo.ancestors(c.name) if x in repo.classes] + [repo.classes[x] for x in repo.subclasses(c.name, strict=True)]
            for attr, (src, f0, n0) in alias_attrs.items():
                hit = None
                for k in family:
                    for g in k.methods.values():
                        for kind, tgt, st in mutations(g.node):
                            if kind == "name-augassign":
                                continue
                            recv = tgt if not kind.startswith("attribute") else tgt.value
                            if U(recv) == "self.%s" % attr:
                                hit = hit or (g, kind, st)
                if hit:
                    g, kind, st = hit
                    findings.append(("DET-2", "%s.%s" % (c.name, attr), "instance attribute aliases %s and is mutated" % src,
                                     "%s binds self.%s to %s (no copy) and %s mutates it in place (%s): every instance shares and modifies the same object"
                                     % (f0.q, attr, src, g.q, U(st)[:50]), "%s:%d" % (m.rel, n0.lineno)))
        return findings, stats
    return ctx.memo("det-analysis", build)


def _shared_source(repo, m, imported, classlevel, modlevel, expr, locs, f):
    """describe the shared (module-level / class-level) mutable object an expression denotes, or None"""
    if isinstance(expr, ast.Name):
        if expr.id in locs:
            return None
        if expr.id in modlevel.get(m.rel, {}) and is_mutable_expr(modlevel[m.rel][expr.id]):
            return "module-level %s.%s" % (m.short, expr.id)
        if expr.id in imported:
            src = imported[expr.id]
            v = modlevel.get(src, {}).get(expr.id)
            if v is not None and is_mutable_expr(v):
                return "module-level %s:%s" % (src, expr.id)
        return None
    if isinstance(expr, ast.Attribute):
        base = expr.value
        if isinstance(base, ast.Name):
            cname = None
            if base.id in ("self", "cls") and f.cls is not None:
                # class attribute reached through the instance, unless the instance defines its own in __init__
                for k in repo.ancestors(f.cls.name):
                    if (k, expr.attr) in classlevel:
                        inits = False
                        for k2 in [repo.classes[x] for x in repo.ancestors(f.cls.name) if x in repo.classes]:
                            init = k2.methods.get("__init__")
                            if init and any(isinstance(n, ast.Assign) and any(U(t) == "self.%s" % expr.attr for t in n.targets) for n in ast.walk(init.node)):
                                inits = True
                        if base.id == "cls":
                            inits = False     # cls.x is the class's own object whatever instances do in __init__
                        if not inits and is_mutable_expr(classlevel[(k, expr.attr)]):
                            return "class attribute %s.%s" % (k, expr.attr)
                return None
            if base.id in repo.classes and base.id not in locs:
                cname = base.id
            if cname and (cname, expr.attr) in classlevel and is_mutable_expr(classlevel[(cname, expr.attr)]):
                return "class attribute %s.%s" % (cname, expr.attr)
    return None


def _emit(ctx, c, rule):
    findings, stats = _analyse(ctx)
    n = 0
    for r, site, fact, text, where in findings:
        if r == rule:
            n += 1
            c.finding(site, fact, text, where)
    c.note("%s: %d functions, %d mutation sites, %d module-level bindings, %d class-level attributes, %d shared default objects examined"
           % (rule, stats["functions"], stats["mutations"], stats["module_bindings"], stats["class_attrs"], stats["defaults"]))
    if n == 0:
        c.ok("repository", "no instance among %d functions / %d mutation sites" % (stats["functions"], stats["mutations"]))
    c.floor("functions examined", stats["functions"], 150)
    c.floor("mutation sites examined", stats["mutations"], 100)
    _canary(rule)


CANARY = {
    "DET-1": ("CACHE = {}\ndef f(k):\n    CACHE[k] = 1\n", "def f(k):\n    cache = {}\n    cache[k] = 1\n"),
    "DET-2": ("class P:\n    table = {}\n    def add(self, k):\n        self.table[k] = 1\n", "class P:\n    def __init__(self):\n        self.table = {}\n    def add(self, k):\n        self.table[k] = 1\n"),
    "DET-3": ("def f(x, acc=[]):\n    acc.append(x)\n", "def f(x, acc=None):\n    acc = [] if acc is None else acc\n    acc.append(x)\n"),
    "DET-5": ("def f(d):\n    s = {k for k in d}\n    for k in s:\n        print(k)\n", "def f(d):\n    s = {k for k in d}\n    for k in sorted(s):\n        print(k)\n"),
    "DET-6": ("import functools\n@functools.lru_cache\ndef f(x):\n    return x\n", "def f(x):\n    return x\n"),
}


def _canary(rule):
    """embedded bad snippet must be flagged, its good twin must not (expected count on the repository is zero)"""
    if rule not in CANARY:
        return
    import os
    import tempfile
    import shutil
    from ..context import Ctx
    for i, src in enumerate(CANARY[rule]):
        tmp = tempfile.mkdtemp(prefix="cocoverif-canary-")
        try:
            os.makedirs(os.path.join(tmp, "cocoasm"))
            for f in ("assembler.py", "file_util.py"):
                open(os.path.join(tmp, f), "w").write("")
            open(os.path.join(tmp, "cocoasm", "canary.py"), "w").write(src)
            from ..model import Repo

            class _C:
                pass
            cx = _C()
            cx.repo = Repo(tmp)
            cx.cache = {}
            cx.memo = lambda key, fn, _c=cx: _c.cache.setdefault(key, fn()) if key not in _c.cache else _c.cache[key]
            fs, _ = _analyse(cx)
            hit = any(r == rule for r, *_ in fs)
            if (i == 0 and not hit) or (i == 1 and hit):
                raise AnalysisError("%s canary failed: %s twin %s" % (rule, "bad" if i == 0 else "good", "not flagged" if i == 0 else "flagged"))
        finally:
            shutil.rmtree(tmp, ignore_errors=True)


def det1(ctx, c):
    _emit(ctx, c, "DET-1")
    repo = ctx.repo
    # process-wide state: the working directory, the environment, the import path, the locale, the random seed
    GLOBAL_SETTERS = ("os.chdir", "os.putenv", "os.unsetenv", "os.umask", "sys.path.append", "sys.path.insert", "sys.setrecursionlimit", "locale.setlocale", "random.seed",
                      "os.environ.update", "os.environ.setdefault", "os.environ.pop")
    for f in repo.all_funcs():
        if not f.module.rel.startswith("cocoasm/"):
            continue
        for x in ast.walk(f.node):
            hit = None
            if isinstance(x, ast.Call) and U(x.func) in GLOBAL_SETTERS:
                hit = U(x.func)
            if isinstance(x, (ast.Assign, ast.AugAssign, ast.Delete)):
                for t in (x.targets if isinstance(x, (ast.Assign, ast.Delete)) else [x.target]):
                    if isinstance(t, ast.Subscript) and U(t.value) == "os.environ":
                        hit = "os.environ[...]"
            if hit:
                # restored on every exit?  only a try/finally (or a context manager) does that
                fin = [t for t in ast.walk(f.node) if isinstance(t, ast.Try) and t.finalbody and any(isinstance(y, ast.Call) and U(y.func) == hit for b in t.finalbody for y in ast.walk(b))]
                inside_try = any(any(x is y for y in ast.walk(ast.Module(body=t.body, type_ignores=[]))) for t in fin)
                before_try = any(getattr(x, "lineno", 0) < t.lineno for t in fin)
                if not (fin and (inside_try or before_try)):
                    c.finding("%s:%s" % (f.q, hit), "process-wide state is changed and not restored on every exit",
                              "%s calls %s: the change outlives the assembly when an exception passes through (no try/finally restores it), so what a later assembly in the same "
                              "process does depends on how an earlier one ended" % (f.q, hit), repo.loc(f, x))
    # a module-level constant computed from the state of the process at import time (working directory, environment, clock): it is fixed when the module is first
    # imported, so what an assembly does depends on where / when the process started rather than on the source
    AMBIENT = ("os.getcwd", "os.getcwdb", "os.environ.get", "os.getenv", "time.time", "time.localtime", "datetime.now", "datetime.datetime.now", "datetime.date.today", "os.getpid",
               "random.random", "random.randint", "os.path.abspath", "os.path.realpath", "pathlib.Path.cwd", "Path.cwd", "tempfile.gettempdir", "tempfile.mkdtemp")
    for m in repo.modules.values():
        if not m.rel.startswith("cocoasm/"):
            continue
        scopes = [("", m.assigns)] + [(cl.name + ".", cl.assigns) for cl in m.classes.values()]
        for prefix, assigns in scopes:
            for name, val in assigns.items():
                amb = [x for x in ast.walk(val) if (isinstance(x, ast.Call) and U(x.func) in AMBIENT) or (isinstance(x, ast.Subscript) and U(x.value) == "os.environ")] \
                    if isinstance(val, ast.AST) else []
                used = any((isinstance(x, ast.Name) and x.id == name and not prefix) or (isinstance(x, ast.Attribute) and prefix and x.attr == name)
                           for f in repo.all_funcs() for x in ast.walk(f.node))
                if amb and used:
                    c.finding("%s:%s%s" % (m.rel, prefix, name), "bound at import time to %s" % U(amb[0])[:40],
                              "%s%s in %s is computed from `%s` when the module is first imported and used by the assembler afterwards: a later assembly in the same process sees the "
                              "state the process had at import time, not its own" % (prefix, name, m.rel, U(amb[0])[:50]), "%s:%d" % (m.rel, getattr(val, "lineno", 0)))
    # one object of a repository class created at import time and handed out to callers that store into objects of that class
    mutable_cls = {}
    for m in repo.modules.values():
        for cl in m.classes.values():
            bases = [b.split(".")[-1] for b in cl.bases]
            if any(b in ("NamedTuple", "Enum", "IntEnum", "Flag", "tuple", "str", "int", "Exception") for b in bases):
                continue
            init = cl.methods.get("__init__")
            fields = {U(t)[5:] for n_ in ast.walk(init.node) if isinstance(n_, ast.Assign) for t in n_.targets if U(t).startswith("self.")} if init else set()
            if fields:
                mutable_cls[cl.name] = fields
    for m in repo.modules.values():
        if not (m.rel.startswith("cocoasm/") or m.rel in ("assembler.py", "file_util.py")):
            continue
        for name, val in m.assigns.items():
            if isinstance(val, ast.Call) and U(val.func) in mutable_cls:
                cls_ = U(val.func)
                users = [f for f in repo.all_funcs() if any(isinstance(x, ast.Name) and x.id == name for x in ast.walk(f.node))]
                handed = [f for f in users if any(isinstance(x, ast.Return) and x.value is not None and any(isinstance(y, ast.Name) and y.id == name for y in ast.walk(x.value))
                                                  for x in ast.walk(f.node))
                          or any(isinstance(x, ast.Assign) and isinstance(x.targets[0], ast.Attribute) and any(isinstance(y, ast.Name) and y.id == name for y in ast.walk(x.value))
                                 for x in ast.walk(f.node))]
                stores = [(f, x) for f in repo.all_funcs() for x in ast.walk(f.node)
                          if isinstance(x, (ast.Assign, ast.AugAssign)) for t in (x.targets if isinstance(x, ast.Assign) else [x.target])
                          if isinstance(t, ast.Attribute) and t.attr in mutable_cls[cls_] and U(t.value) not in ("self", "cls") and
                          (f.cls is None or f.cls.name != cls_)]
                if handed and stores:
                    c.finding("%s:%s" % (m.rel, name), "one %s object created at import time is handed out by %s" % (cls_, handed[0].q),
                              "%s = %s in %s is a single object; %s gives it to its callers, and %s stores into the %s of such objects in place (`%s`): what one assembly writes there is "
                              "seen by every later one in the process" % (name, U(val)[:40], m.rel, handed[0].q, stores[0][0].q, cls_, U(stores[0][1])[:50]),
                              "%s:%d" % (m.rel, getattr(val, "lineno", 0)))
    # a module- or class-level name bound to a one-shot iterator (generator expression, iter(), map(), filter(), zip()) is state:
    # every use consumes it, so what a membership test or loop over it sees depends on what ran before
    for m in repo.modules.values():
        if not (m.rel.startswith("cocoasm/") or m.rel in ("assembler.py", "file_util.py")):
            continue
        scopes = [("", m.assigns)] + [(cl.name + ".", cl.assigns) for cl in m.classes.values()]
        for prefix, assigns in scopes:
            for name, val in assigns.items():
                one_shot = isinstance(val, ast.GeneratorExp) or (isinstance(val, ast.Call) and U(val.func) in ("iter", "map", "filter", "zip", "reversed", "enumerate"))
                if not one_shot:
                    continue
                uses = sum(1 for f in repo.all_funcs() if f.module is m or True for x in ast.walk(f.node)
                           if (isinstance(x, ast.Name) and x.id == name and not prefix) or (isinstance(x, ast.Attribute) and prefix and x.attr == name))
                if uses:
                    c.finding("%s:%s%s" % (m.rel, prefix, name), "one-shot iterator bound at import time",
                              "%s%s in %s is `%s`, an iterator that is consumed by its first uses: membership tests and loops over it give other answers later in the same process "
                              "(the second assembly of the same source differs from the first)" % (prefix, name, m.rel, U(val)[:60]), "%s:%d" % (m.rel, getattr(val, "lineno", 0)))


def det2(ctx, c):
    _emit(ctx, c, "DET-2")
    # a field of a NamedTuple / dataclass-like class whose default is a mutable object created once with the class: every instance built without that field carries the
    # same object; mutating it through one instance changes all of them, for the rest of the process
    repo = ctx.repo
    shared = {}
    for cl in repo.classes.values():
        for st in cl.node.body:
            if isinstance(st, ast.AnnAssign) and isinstance(st.target, ast.Name) and st.value is not None and is_mutable_expr(st.value):
                shared[(cl.name, st.target.id)] = st
    MUT = ("append", "extend", "insert", "pop", "remove", "clear", "sort", "reverse", "update", "add", "setdefault", "popitem", "discard")
    for f in repo.all_funcs():
        built = {}
        for n in ast.walk(f.node):
            if isinstance(n, ast.Assign) and isinstance(n.value, ast.Call) and isinstance(n.value.func, ast.Name) and len(n.targets) == 1 and isinstance(n.targets[0], ast.Name):
                for (cn, fld) in shared:
                    if n.value.func.id == cn and not any(k.arg == fld for k in n.value.keywords) and not any(k.arg is None for k in n.value.keywords) \
                            and len(n.value.args) <= [x.target.id for x in repo.classes[cn].node.body if isinstance(x, ast.AnnAssign)].index(fld):
                        built.setdefault(n.targets[0].id, []).append((cn, fld))
        for n in ast.walk(f.node):
            tgt = None
            if isinstance(n, ast.Call) and isinstance(n.func, ast.Attribute) and n.func.attr in MUT and isinstance(n.func.value, ast.Attribute) and isinstance(n.func.value.value, ast.Name):
                tgt = n.func.value
            elif isinstance(n, (ast.Assign, ast.AugAssign)):
                for t_ in (n.targets if isinstance(n, ast.Assign) else [n.target]):
                    if isinstance(t_, ast.Subscript) and isinstance(t_.value, ast.Attribute) and isinstance(t_.value.value, ast.Name):
                        tgt = t_.value
                    if isinstance(n, ast.AugAssign) and isinstance(t_, ast.Attribute) and isinstance(t_.value, ast.Name):
                        tgt = t_
            if tgt is not None:
                for cn, fld in built.get(tgt.value.id, []):
                    if tgt.attr == fld:
                        c.finding("%s:%s.%s" % (f.q, cn, fld), "mutates the default %s of a %s built without it (%s)" % (fld, cn, U(n)[:40]),
                                  "%s builds a %s without `%s=` and then does `%s`: the default `%s` is one object created with the class, shared by every %s built that way, so what one "
                                  "assembly puts there is still there for the next one in the same process" % (f.q, cn, fld, U(n)[:60], U(shared[(cn, fld)].value), cn), repo.loc(f, n))


def det3(ctx, c):
    _emit(ctx, c, "DET-3")
    # a default argument that is an OBJECT of a repository class with state of its own is built once, when the function is defined: every call that does not pass
    # the argument works on that one object
    repo = ctx.repo
    for f in repo.all_funcs():
        a = f.node.args
        params = a.posonlyargs + a.args
        defaults = [None] * (len(params) - len(a.defaults)) + list(a.defaults)
        for prm, d in list(zip(params, defaults)) + list(zip(a.kwonlyargs, a.kw_defaults)):
            if isinstance(d, ast.Call) and isinstance(d.func, ast.Name) and d.func.id in repo.classes:
                cl = repo.classes[d.func.id]
                bases = [b.split(".")[-1] for b in cl.bases]
                init = repo.lookup(cl, "__init__")
                stateful = init is not None and any(isinstance(n_, ast.Assign) and any(U(t_).startswith("self.") for t_ in n_.targets) and is_mutable_expr(n_.value) for n_ in ast.walk(init.node))
                used = [x for x in ast.walk(f.node) if isinstance(x, ast.Call) and isinstance(x.func, ast.Attribute) and isinstance(x.func.value, ast.Name) and x.func.value.id == prm.arg]
                if stateful and used and not any(b in ("NamedTuple", "Enum", "IntEnum") for b in bases):
                    c.finding("%s:%s" % (f.q, prm.arg), "the default of %s is one %s object shared by all calls" % (prm.arg, d.func.id),
                              "%s declares `%s=%s`: the object is created once, when the function is defined, and %s works on it (`%s`) - what one call leaves in it (symbols, statements, files) "
                              "is there for the next call in the same process" % (f.q, prm.arg, U(d), f.q, U(used[0])[:40]), repo.loc(f, d))


def det5(ctx, c):
    _emit(ctx, c, "DET-5")


def det6(ctx, c):
    _emit(ctx, c, "DET-6")


def det4(ctx, c):
    """DET-4 the list of source lines is only read."""
    repo = ctx.repo
    n = 0
    for cls, meth in (("Program", "process"), ("Program", "parse")):
        f = repo.method(cls, meth)
        params = [p for p in f.params if p not in ("self", "cls")]
        for kind, tgt, st in mutations(f.node):
            if kind == "name-augassign":
                continue
            recv = tgt if not kind.startswith("attribute") else tgt.value
            r = root_of(recv)
            if isinstance(r, ast.Name) and r.id in params:
                n += 1
                c.finding("%s.%s" % (cls, meth), "mutates its input (%s)" % U(st)[:40], "%s.%s modifies the list of source lines it was given: %s" % (cls, meth, U(st)[:60]),
                          repo.loc(f, st))
        # passing the lines on: only to parse / Statement(line)
        c.ok("%s.%s" % (cls, meth), "source lines only read")
    c.floor("entry points", 2, 2)
    # the methods that only report (listing, symbol table, image) leave the program as it is: asking for one must not change what another returns
    for meth in ("get_statements", "get_symbol_table", "get_binary_array"):
        P = repo.cls("Program")
        f = P.methods.get(meth)
        if f is None:
            continue
        hit = None
        from ..inline import flatten as _fl4
        try:
            fnode = _fl4(repo, f, depth=2)
        except Exception:
            fnode = f.node
        # the helpers it calls on itself count too (a mutation moved into `self.append_bytes(...)` is the same mutation)
        helper_nodes = [fnode] + [P.methods[x.func.attr].node for x in ast.walk(fnode) if isinstance(x, ast.Call) and isinstance(x.func, ast.Attribute)
                                  and isinstance(x.func.value, ast.Name) and x.func.value.id == "self" and x.func.attr in P.methods and x.func.attr != meth]
        for hn in helper_nodes:
            for kind, tgt, st in mutations(hn):
                recv = tgt if not kind.startswith("attribute") else tgt.value
                r = root_of(recv)
                if isinstance(r, ast.Name) and r.id == "self":
                    hit = hit or st
            for x in ast.walk(hn):
                if isinstance(x, ast.Call) and isinstance(x.func, ast.Attribute) and x.func.attr in ("sort", "reverse", "pop", "remove", "clear", "insert", "append", "extend") \
                        and U(x.func.value).startswith("self."):
                    hit = hit or x
        if hit is not None:
            c.finding("Program.%s" % meth, "changes the program while reporting on it (%s)" % U(hit)[:40],
                      "Program.%s modifies the program's own state (`%s`): what get_binary_array / get_statements return then depends on which of them was called first, so the same "
                      "source gives different output" % (meth, U(hit)[:60]), repo.loc(f, hit))
        else:
            c.ok("Program.%s" % meth, "only reads the program", repo.loc(f, f.node))


def det4_values(ctx, c):
    """the rendering accessors of the value classes are functions of the value and their arguments: one that stores into the object (a memo) answers later calls
    from the first call's arguments - the same address object is asked for 4 digits by the listing and for its own width by the symbol table"""
    repo = ctx.repo
    n = 0
    for cn, cl in repo.classes.items():
        if not cn.endswith("Value"):
            continue
        for mn, f in cl.methods.items():
            if not (mn in ("hex", "hex_len", "byte_len", "high_byte", "low_byte", "ascii", "get_negative") or mn.startswith("is_")):
                continue
            n += 1
            stores = [x for x in ast.walk(f.node) if isinstance(x, (ast.Assign, ast.AugAssign)) for t_ in (x.targets if isinstance(x, ast.Assign) else [x.target])
                      if isinstance(t_, (ast.Attribute, ast.Subscript)) and U(t_).startswith("self.")]
            if stores:
                c.finding("%s.%s" % (cn, mn), "an accessor stores into the value (%s)" % U(stores[0])[:40],
                          "%s.%s does `%s`: what it returns later depends on how it was called first (with which width), so the listing, the symbol table and the image - which ask the "
                          "same object with different arguments, in an order that depends on the command line - no longer agree with each other or between runs" % (cn, mn, U(stores[0])[:60]),
                          repo.loc(f, stores[0]))
    c.floor("value accessors examined", n, 20)
    if n:
        c.ok("value accessors", "%d accessors only read the value" % n, "")


RULES = {"DET-1": det1, "DET-2": det2, "DET-3": det3, "DET-4": (lambda ctx, c: (det4(ctx, c), det4_values(ctx, c))), "DET-5": det5, "DET-6": det6}
