"""WID rules: numeric bounds, two's-complement rendering, literal radix, width discipline of simple operand classes."""
import ast
import re

from ..model import U, body_without_doc, AnalysisError
from ..consteval import try_fold, fold, NotConst
from ..absint import Interp, Ctor, Lin, Const, Opq, PathCap
from ..context import OPERAND_CLASS_MODE

NV = "NumericValue"


def _cmp_bound(node):
    """`self.int <= K` / `< K` -> largest magnitude accepted, else None"""
    if isinstance(node, ast.Compare) and len(node.ops) == 1 and U(node.left) == "self.int":
        k = try_fold(node.comparators[0])
        if isinstance(k, int):
            if isinstance(node.ops[0], ast.LtE):
                return k
            if isinstance(node.ops[0], ast.Lt):
                return k - 1
    return None


def wid3(ctx, c):
    """WID-3 width predicates, parse-time limits and two's-complement modulus."""
    repo = ctx.repo
    C = repo.cls(NV)
    mod = C.module.rel
    for meth, (neg_max, pos_max) in (("is_4_bit", (16, 15)), ("is_8_bit", (128, 127))):
        f = repo.method(NV, meth, inherited=False)
        where = repo.loc(f, f.node)
        rets = [n.value for n in ast.walk(f.node) if isinstance(n, ast.Return) and n.value is not None]
        if len(rets) != 1 or not isinstance(rets[0], ast.IfExp):
            c.undecided("%s.%s" % (NV, meth), "shape-unknown", U(rets[0]) if rets else "", where)
            continue
        r = rets[0]
        neg_first = U(r.test) in ("self.negative", "self.is_negative()")
        nb, pb = (_cmp_bound(r.body), _cmp_bound(r.orelse)) if neg_first else (_cmp_bound(r.orelse), _cmp_bound(r.body))
        if nb is None or pb is None or not (neg_first or U(r.test) in ("not self.negative",)):
            c.undecided("%s.%s" % (NV, meth), "bounds-not-extractable", U(r), where)
            continue
        c.check(nb <= neg_max, "%s.%s:negative" % (NV, meth), "magnitude <= %d" % neg_max, "accepts magnitude %d (limit %d)" % (nb, neg_max),
                "%s claims negative magnitudes up to %d; the field holds down to -%d only" % (meth, nb, neg_max), where)
        c.check(pb <= pos_max, "%s.%s:positive" % (NV, meth), "value <= %d" % pos_max, "accepts %d (limit %d)" % (pb, pos_max),
                "%s claims positive values up to %d; the signed field holds up to %d only" % (meth, pb, pos_max), where)
    # get_negative: the method folded for every width and boundary magnitude (all return statements, helpers included)
    f = repo.method(NV, "get_negative", inherited=False)
    where = repo.loc(f, f.node)
    params = [p for p in f.params if p != "self"]
    if True:
        bad = None
        undec = None
        cases = []
        for n in (1, 2, 15, 16, 17, 127, 128):
            cases.append((2, n, 0x100 - n))
            cases.append((None, n, 0x100 - n))
        for n in (1, 127, 128, 129, 255, 256, 32767, 32768):
            cases.append((4, n, 0x10000 - n))
        for n in (129, 255, 256, 32768):
            cases.append((None, n, 0x10000 - n))
        from ..consteval import Raised as _Rg
        for size, n, want in cases:
            st_ = {"self.int": n, "self.size_hint": size, "self.negative": True}
            try:
                got = fold_method(ctx, NV, "get_negative", st_, tuple([size] if params else []))
            except NotConst as e:
                undec = str(e)
                break
            except _Rg as e:
                got = "raises %s" % e.name
            if got != want:
                bad = (size, n, got if isinstance(got, int) else -1, want)
                break
        if undec:
            c.undecided("get_negative", "expression-not-foldable", undec, where)
        elif bad:
            c.finding("get_negative", "width %s, -%d -> %#x (two's complement %#x)" % (bad[0], bad[1], bad[2], bad[3]),
                      "get_negative renders -%d in a field of %s hex digits as %X; two's complement at that width is %X"
                      % (bad[1], bad[0] if bad[0] else "its own", bad[2], bad[3]), where)
        else:
            c.ok("get_negative", "two's complement at 8 and 16 bits for all boundary magnitudes", where)
        # hex() must hand its width to get_negative
        hx = repo.method(NV, "hex", inherited=False)
        calls = [n for n in ast.walk(hx.node) if isinstance(n, ast.Call) and U(n.func) == "self.get_negative"]
        if calls and params:
            c.check(all(cl.args or cl.keywords for cl in calls), "hex:width-passed", "hex passes its width to get_negative", "get_negative() called without the width",
                    "NumericValue.hex renders a negative value without telling get_negative the field width", repo.loc(hx, hx.node))
    # parse-time limits in __init__: per literal kind, fold the raising tests at boundary magnitudes
    init = repo.method(NV, "__init__")
    wi = repo.loc(init, init.node)
    from ..inline import flatten
    import copy
    init_flat = flatten(repo, init, depth=2)
    body = body_without_doc(init_flat)

    class Sub(ast.NodeTransformer):
        """len(data.group('value')) -> __digits ; int(data.group('value'), base) -> __value"""
        def visit_Call(self, node):
            self.generic_visit(node)
            t = U(node)
            if re.fullmatch(r"len\(\w+\.group\('value'\)\)", t):
                return ast.copy_location(ast.Name(id="__digits", ctx=ast.Load()), node)
            return node
    spec = {
        "INT_REGEX": ("value", [0, 255, 256, 65535], [65536, 70000, 100000]),
        "NEG_INT_REGEX": ("value", [1, 128, 129, 32768], [32769, 40000, 65536, 70000]),
        "HEX_REGEX": ("digits", [1, 2, 3, 4], [5, 6, 8]),
        "BINARY_REGEX": ("digits", [8, 16], [1, 4, 7, 9, 12, 15, 17, 32]),
    }
    cur = None
    seen_kinds = set()
    for st in body:
        if isinstance(st, ast.Assign) and isinstance(st.value, ast.Call) and U(st.value.func).endswith(".match") and U(st.value.func).split(".")[0] in spec:
            cur = U(st.value.func).split(".")[0]
        elif isinstance(st, ast.If) and cur and isinstance(st.test, ast.Name):
            kind, accept, reject = spec[cur]
            seen_kinds.add(cur)
            tests = [n.test for n in ast.walk(st) if isinstance(n, ast.If) and n.body and isinstance(n.body[-1], ast.Raise)]
            # names bound to the digit count / the value inside this branch
            alias = {}
            for n in ast.walk(st):
                if isinstance(n, ast.Assign) and isinstance(n.targets[0], (ast.Name, ast.Attribute)):
                    t = U(n.value)
                    if re.fullmatch(r"len\(\w+\.group\('value'\)\)", t):
                        alias[U(n.targets[0])] = "digits"
                    elif re.fullmatch(r"int\(\w+\.group\('value'\), \d+\)", t):
                        alias[U(n.targets[0])] = "value"

            def rejected(x):
                env = dict(ctx.env)
                env["__digits"] = x if kind == "digits" else 99
                for nm, what in alias.items():
                    env[nm] = x if what == kind else (4 if what == "digits" else 0)
                if kind == "value":
                    env.setdefault("self.int", x)
                return any(fold(Sub().visit(copy.deepcopy(t_)), env) for t_ in tests)
            site = "__init__:%s" % cur
            try:
                acc_bad = [x for x in reject if not rejected(x)]
                rej_bad = [x for x in accept if rejected(x)]
            except NotConst as e:
                c.undecided(site, "limit-test-not-foldable", str(e), repo.loc(init, st))
                cur = None
                continue
            what = {"INT_REGEX": "decimal literal", "NEG_INT_REGEX": "negative literal of magnitude", "HEX_REGEX": "hex literal with digit count", "BINARY_REGEX": "binary literal with digit count"}[cur]
            if acc_bad:
                c.finding(site, "accepts %s %s" % (what, acc_bad[0]), "NumericValue accepts a %s %s: it does not fit 16 bits (or is not a byte/word pattern) and is then encoded as something else" % (what, acc_bad[0]),
                          repo.loc(init, st))
            elif rej_bad:
                c.finding(site, "rejects %s %s" % (what, rej_bad[0]), "NumericValue rejects a valid %s %s" % (what, rej_bad[0]), repo.loc(init, st))
            else:
                c.ok(site, "accepts %s, rejects %s" % (accept, reject), repo.loc(init, st))
            cur = None
    for k in spec:
        if k not in seen_kinds:
            c.undecided("__init__:%s" % k, "literal-branch-not-recognised", "", wi)
    # the int-typed constructor path: values above 65535 are rejected
    for n in ast.walk(init_flat):
        if isinstance(n, ast.If) and re.search(r"type\(value\) (==|is) int|isinstance\(value, int\)", U(n.test)):
            tests = [x.test for x in ast.walk(n) if isinstance(x, ast.If) and x.body and isinstance(x.body[-1], ast.Raise)]
            try:
                rej = lambda v: any(fold(t_, dict(ctx.env, **{"self.int": v, "value": v})) for t_ in tests)
                good = not rej(65535) and rej(65536)
                c.check(good, "__init__:int-arg", "integers above 65535 are rejected", "65535 rejected: %s, 65536 rejected: %s" % (rej(65535), rej(65536)),
                        "NumericValue(int) %s" % ("accepts 65536" if not rej(65536) else "rejects 65535"), repo.loc(init, n))
            except NotConst as e:
                c.undecided("__init__:int-arg", "limit-test-not-foldable", str(e), repo.loc(init, n))
    # direct-page test: a value marked one byte wide must be < 256
    pd = C.methods.get("post_init_direct_check")
    if pd:
        wp = repo.loc(pd, pd.node)
        bounds = []
        for n in ast.walk(pd.node):
            if isinstance(n, ast.Compare) and U(n.left) == "self.int" and len(n.ops) == 1:
                k = try_fold(n.comparators[0])
                if isinstance(k, int):
                    if isinstance(n.ops[0], ast.Lt):
                        bounds.append(k - 1)
                    elif isinstance(n.ops[0], ast.LtE):
                        bounds.append(k)
        if not bounds:
            c.undecided("post_init_direct_check", "bound-not-found", "", wp)
        for b in bounds:
            c.check(b <= 255, "post_init_direct_check", "one-byte width only for values <= 255", "one-byte width for values up to %d" % b,
                    "post_init_direct_check gives values up to %d a one-byte width hint; %d does not fit a byte, its high byte is dropped" % (b, b), wp)
    # hex literal of two digits is one byte: len == 2
    for n in ast.walk(init.node):
        if isinstance(n, ast.If) and "len(data.group('value')) ==" in U(n.test) and "size_hint is None" in U(n.test):
            cmpn = [x for x in ast.walk(n.test) if isinstance(x, ast.Compare) and "len(" in U(x.left)][0]
            k = try_fold(cmpn.comparators[0])
            sets = [try_fold(x.value) for x in n.body if isinstance(x, ast.Assign) and U(x.targets[0]) == "self.size_hint"]
            c.check(k is not None and sets and k <= sets[0], "__init__:hex-width", "%d-digit hex -> hint %s" % (k, sets), "%s-digit hex -> hint %s" % (k, sets),
                    "a hex literal of %s digits is given a width hint of %s digits" % (k, sets), repo.loc(init, n))


SAMPLES = {
    "BINARY_REGEX": (["%01010101", "%1111000011110000", "%0"], ["%2", "01", "%", "%01a"]),
    "HEX_REGEX": (["$FF", "$ffff", "$0", "$1aB"], ["$G", "FF", "$", "$12 "]),
    "INT_REGEX": (["0", "123", "65535"], ["-1", "1a", "", "$1"]),
    "NEG_INT_REGEX": (["-5", "-32768"], ["5", "--5", "-", "-a"]),
    "CHAR_REGEX": (["'A", "'z", "'0", "'+"], ["A", "''A", "'AB"]),
}
RADIX = {"BINARY_REGEX": 2, "HEX_REGEX": 16, "INT_REGEX": 10, "NEG_INT_REGEX": 10, "CHAR_REGEX": "ord"}


def wid5(ctx, c):
    """WID-5 literal patterns and the radix each captured group is converted with."""
    repo = ctx.repo
    C = repo.cls(NV)
    mod = C.module
    pats = {}
    for name in SAMPLES:
        node = mod.assigns.get(name)
        if node is None or not (isinstance(node, ast.Call) and U(node.func) == "re.compile" and node.args):
            c.undecided(name, "pattern-not-found", "", mod.rel)
            continue
        p = try_fold(node.args[0])
        if not isinstance(p, str):
            c.undecided(name, "pattern-not-constant", "", mod.rel)
            continue
        pats[name] = p
        try:
            rx = re.compile(p)
        except re.error as e:
            c.finding(name, "pattern does not compile", str(e), mod.rel)
            continue
        good, badl = SAMPLES[name]
        miss = [s for s in good if not rx.match(s)]
        extra = [s for s in badl if rx.match(s)]
        c.check(not miss and not extra, name, "accepts/rejects the reference samples", "rejects %s, accepts %s" % (miss, extra),
                "%s = %r rejects %s and accepts %s" % (name, p, miss, extra), "%s:%d" % (mod.rel, node.lineno))
    c.floor("literal patterns", len(pats), 4)
    init = repo.method(NV, "__init__")
    from ..inline import flatten
    body = body_without_doc(flatten(repo, init, depth=2))
    cur = None
    n = 0
    for st in body:
        if isinstance(st, ast.Assign) and isinstance(st.value, ast.Call) and U(st.value.func).endswith(".match") and U(st.value.func).split(".")[0] in SAMPLES:
            cur = U(st.value.func).split(".")[0]
        elif isinstance(st, ast.If) and cur and U(st.test) == "data":
            conv = None
            for x in ast.walk(st):
                if isinstance(x, ast.Assign) and U(x.targets[0]) == "self.int" and isinstance(x.value, ast.Call):
                    fn = U(x.value.func)
                    if fn == "int" and len(x.value.args) == 2:
                        conv = try_fold(x.value.args[1])
                    elif fn == "int" and len(x.value.args) == 1:
                        conv = 10
                    elif fn == "ord":
                        conv = "ord"
            n += 1
            if conv is None:
                c.undecided("__init__:%s" % cur, "conversion-not-recognised", "", repo.loc(init, st))   # the values themselves are decided by WID-8
                continue
            c.check(conv == RADIX[cur], "__init__:%s" % cur, "converted with %s" % RADIX[cur], "converted with %s" % conv,
                    "text matched by %s is converted with %s, it must be %s" % (cur, conv, RADIX[cur]), repo.loc(init, st))
            cur = None
    c.floor("literal conversions", n, 4)


def wid1(ctx, c):
    """WID-1 simple operand classes: opcode column, size column, and the width of `additional` at the sink."""
    repo = ctx.repo
    n = 0
    for cls, md in OPERAND_CLASS_MODE.items():
        if cls in ("ExtendedIndexedOperand", "IndexedOperand"):
            continue
        fn = repo.method(cls, "translate", inherited=False)
        where = repo.loc(fn, fn.node)
        try:
            if cls == "SpecialOperand":
                # path count explodes through the register arms; the return is unconditional at the end
                rets = [x for x in ast.walk(fn.node) if isinstance(x, ast.Return)]
                tmp = ast.parse("def f(self):\n    pass").body[0]
                # ... together with the straight-line assignments of the function body that the return reads (size = ..., post = NumericValue(...))
                need_ = {x.id for x in ast.walk(rets[-1]) if isinstance(x, ast.Name)}
                pre_ = []
                for st_ in reversed(body_without_doc(fn.node)):
                    if isinstance(st_, ast.Assign) and len(st_.targets) == 1 and isinstance(st_.targets[0], ast.Name) and st_.targets[0].id in need_ \
                            and not any(isinstance(x, ast.Call) and U(x.func).startswith("self.") for x in ast.walk(st_.value)):
                        pre_.insert(0, st_)
                        need_ |= {x.id for x in ast.walk(st_.value) if isinstance(x, ast.Name)}
                tmp.body = pre_ + [rets[-1]]
                outs = Interp(tmp, sym_attrs=("_sz",)).run()
            else:
                outs = Interp(fn.node, sym_attrs=("_sz",)).run()
        except PathCap as e:
            c.undecided("%s.translate" % cls, "path-cap", str(e), where)
            continue
        seen = set()
        for o in outs:
            if o.kind != "return":
                continue
            v = o.value
            if not (isinstance(v, Ctor) and v.cls == "CodePackage"):
                c.undecided("%s.translate" % cls, "return-not-CodePackage", repr(v)[:60], where)
                continue
            n += 1
            kw = v.kw
            sz, mx = kw.get("size"), kw.get("max_size")
            fact = (repr(sz), repr(mx), repr(kw.get("additional")), repr(kw.get("op_code")))
            if fact in seen:
                continue
            seen.add(fact)
            site = "%s.translate" % cls
            good = isinstance(sz, Lin) and sz.terms == {md + "_sz": 1} and sz.c == 0
            if not isinstance(sz, (Lin, Const)):
                c.undecided(site + ":size", "size-not-expressed-through-the-table", repr(sz)[:60], where)
                continue
            c.check(good, site + ":size", "size = mode.%s_sz" % md, "size = %r" % sz, "%s.translate reports size %r, the table column is mode.%s_sz" % (cls, sz, md), where)
            goodm = repr(mx) == repr(sz)
            c.check(goodm, site + ":max_size", "max_size = size", "max_size = %r, size = %r" % (mx, sz), "%s.translate reports max_size %r != size %r" % (cls, mx, sz), where)
            add = kw.get("additional")
            if cls in ("ImmediateOperand", "DirectOperand", "ExtendedOperand"):
                if isinstance(add, Opq) and add.text.startswith("self.value"):
                    c.finding(site + ":additional", "operand value emitted at its own rendered width, unchecked against the mode's width",
                              "%s.translate emits self.value as is: its rendered width follows the spelling/magnitude (e.g. #$1234 for an 8-bit instruction gives 3 bytes in a 2-byte statement), "
                              "and no range check rejects a value that does not fit" % cls, where)
                elif add is None or (isinstance(add, Ctor) and add.cls == "NoneValue"):
                    c.finding(site + ":additional", "no operand bytes emitted", "%s.translate emits no operand" % cls, where)
                else:
                    c.undecided(site + ":additional", "additional-shape-unknown", repr(add)[:60], where)
            if cls == "InherentOperand":
                c.check(add is None or (isinstance(add, Ctor) and add.cls == "NoneValue"), site + ":additional", "no operand bytes", "emits %r" % add, "InherentOperand emits operand bytes", where)
            if cls == "SpecialOperand":
                pb = kw.get("post_byte")
                c.check(isinstance(pb, Ctor) and pb.cls == "NumericValue", site + ":post_byte", "post byte emitted", "post_byte = %r" % pb, "SpecialOperand emits no post byte", where)
    c.floor("simple translate() returns", n, 6)
    # address fix-up sink: the label's address object is emitted as the operand, at whatever width it renders itself
    fa = repo.method("Statement", "fix_addresses")
    from ..inline import flatten as _fl
    for n in ast.walk(_fl(repo, fa, depth=2)):
        if isinstance(n, ast.Assign) and U(n.targets[0]).endswith("code_pkg.additional") and re.fullmatch(r"statements\[[^\]]+\]\.code_pkg\.address", U(n.value)):
            c.finding("Statement.fix_addresses:address-operand", "the target statement's address object is emitted as the operand at its own width",
                      "fix_addresses substitutes `%s` for a label operand: that NumericValue renders one byte for addresses below $100, so JMP L with L < $100 emits 2 bytes in a 3-byte statement"
                      % U(n.value), repo.loc(fa, n))
    # the substitution applies to every operand whose value is a label: an extra condition leaves some of them holding the statement index
    for n in ast.walk(_fl(repo, fa, depth=2)):
        if isinstance(n, ast.If) and any(isinstance(x, ast.Assign) and U(x.targets[0]).endswith("code_pkg.additional") and
                                         "calculate_address_offset" in U(x.value) for x in n.body):
            conj = n.test.values if isinstance(n.test, ast.BoolOp) and isinstance(n.test.op, ast.And) else [n.test]
            extra = [U(v) for v in conj if not re.fullmatch(r"self\.operand\.value\.is_address_expression\(\)", U(v))]
            if extra and len(extra) < len(conj):
                c.finding("Statement.fix_addresses:expression-guard", "a label+n operand is evaluated only when %s" % " and ".join(extra)[:70],
                          "fix_addresses evaluates a label+/-constant operand after layout only when `%s` also holds: other operand kinds carrying such an expression (immediate, indexed "
                          "offsets) keep their unevaluated value and emit no or wrong operand bytes" % " and ".join(extra), repo.loc(fa, n))
            elif not extra:
                c.ok("Statement.fix_addresses:expression-guard", "every operand whose value is label+/-n is evaluated", repo.loc(fa, n))
        if isinstance(n, ast.If) and any(isinstance(x, ast.Assign) and U(x.targets[0]).endswith("code_pkg.additional") and
                                         re.fullmatch(r"statements\[[^\]]+\]\.code_pkg\.address", U(x.value)) for x in n.body):
            conj = n.test.values if isinstance(n.test, ast.BoolOp) and isinstance(n.test.op, ast.And) else [n.test]
            extra = [U(v) for v in conj if not re.fullmatch(r"self\.operand\.value\.is_address\(\)", U(v))]
            if extra and len(extra) < len(conj):
                c.finding("Statement.fix_addresses:address-guard", "a label operand is given its address only when %s" % " and ".join(extra)[:70],
                          "fix_addresses replaces a label operand's statement index by the label's address only when `%s` also holds: operands failing that test are emitted with the "
                          "statement index as their value" % " and ".join(extra), repo.loc(fa, n))
            elif not extra:
                c.ok("Statement.fix_addresses:address-guard", "every operand whose value is a label gets the label's address", repo.loc(fa, n))
    # WID-4: hex() can be longer than hex_len()
    hx = repo.method(NV, "hex", inherited=False)
    hl = repo.method(NV, "hex_len", inherited=False)
    init = repo.method(NV, "__init__")
    guard = False
    for f in (hx, init):
        for node in ast.walk(f.node):
            if isinstance(node, ast.If) and node.body and isinstance(node.body[-1], ast.Raise) and "size_hint" in U(node.test) and "self.int" in U(node.test):
                guard = True
    pads = "0>" in U(hx.node)
    trusts_hint = any(isinstance(x, ast.Return) and U(x.value) == "self.size_hint" for x in ast.walk(hl.node))
    if pads and trusts_hint and not guard:
        c.finding("NumericValue.hex/hex_len", "hex() pads to the hint but never narrows or rejects; hex_len() returns the hint",
                  "len(NumericValue.hex()) can exceed hex_len(): a value larger than its width hint renders more digits than the emitter reads "
                  "(FCB 300 lists 12C and emits 12; FCB 300,1 breaks emission)", repo.loc(hx, hx.node))
    elif guard:
        c.ok("NumericValue.hex/hex_len", "a range check relates the value to its width hint", repo.loc(hx, hx.node))
    else:
        c.undecided("NumericValue.hex/hex_len", "rendering-shape-unknown", "", repo.loc(hx, hx.node))


def wid6(ctx, c):
    """WID-6 an operand width derived from a table size must subtract the length of the opcode, which is 2 for page-2/3 instructions."""
    from ..refs import mc6809
    repo = ctx.repo
    eff, _ = ctx.effective_rows()
    n = 0
    for f in repo.all_funcs():
        if not f.module.rel.startswith("cocoasm/"):
            continue
        for x in ast.walk(f.node):
            if isinstance(x, ast.BinOp) and isinstance(x.op, ast.Sub) and isinstance(x.left, ast.Attribute) and x.left.attr.endswith("_sz") and U(x.left.value).endswith("mode"):
                k = try_fold(x.right, ctx.env)
                md = x.left.attr[:-3]
                if not isinstance(k, int):
                    continue
                n += 1
                wrong = sorted(m for m, r in eff.items() if not r.flags["is_pseudo"] and r.modes[md][0] is not None and isinstance(r.modes[md][1], int)
                               and r.modes[md][1] - k != r.modes[md][1] - mc6809.oplen(r.modes[md][0]))
                # is the result used as a width (size_hint / shift count / byte count)?
                used_as_width = False
                for st in ast.walk(f.node):
                    if isinstance(st, ast.Assign) and any(y is x for y in ast.walk(st.value)):
                        nm = U(st.targets[0])
                        used_as_width = any(nm in U(y) for y in ast.walk(f.node) if isinstance(y, ast.keyword) and y.arg == "size_hint") or \
                            any(isinstance(y, ast.BinOp) and isinstance(y.op, (ast.LShift, ast.Mult)) and nm in U(y) for y in ast.walk(f.node))
                    if isinstance(st, ast.keyword) and st.arg == "size_hint" and any(y is x for y in ast.walk(st.value)):
                        used_as_width = True
                if wrong and used_as_width:
                    c.finding("%s:%s - %d" % (f.q, x.left.attr, k), "operand width computed as %s - %d" % (x.left.attr, k),
                              "%s derives an operand width from %s - %d: that assumes a %d-byte opcode and is wrong for %s (two-byte opcodes)" % (f.q, x.left.attr, k, k, ", ".join(wrong[:8])),
                              repo.loc(f, x))
                else:
                    c.ok("%s:%s - %d" % (f.q, x.left.attr, k), "consistent with the table", repo.loc(f, x))
    c.ok("repository", "%d width formulas derived from table sizes examined" % n, nontrivial=False)


def _lay5_evaluated(ctx, c, f, where):
    """get_binary_array folded over a model statement list: each field is (hex string, hex_len) as the value classes produce them - the RMB fields by folding
    NumericValue(0, size_hint=2n) - and the bytes must be, per statement, the first hex_len digits of op_code, post_byte, additional."""
    import copy
    from ..consteval import fold_body, NotConst as _NC, Raised as _R

    class T(ast.NodeTransformer):
        def visit_Call(self, n):
            if isinstance(n.func, ast.Attribute) and n.func.attr in ("hex", "hex_len") and not n.args and not n.keywords:
                return ast.Subscript(value=self.visit(n.func.value), slice=ast.Constant(n.func.attr), ctx=ast.Load())
            if isinstance(n.func, ast.Attribute):
                n.func.value = self.visit(n.func.value)
                n.args = [self.visit(a) for a in n.args]
                n.keywords = [ast.keyword(arg=k.arg, value=self.visit(k.value)) for k in n.keywords]
                return n
            return self.generic_visit(n)

        def visit_Attribute(self, n):
            if isinstance(n.ctx, ast.Load):
                return ast.Subscript(value=self.visit(n.value), slice=ast.Constant(n.attr), ctx=ast.Load())
            return self.generic_visit(n)
    try:
        body = [T().visit(copy.deepcopy(st)) for st in body_without_doc(f.node)]
        for st in body:
            ast.fix_missing_locations(st)

        def V(h, n):
            return {"hex": h, "hex_len": n, "int": int(h or "0", 16)}

        def S(what, op, post, add, skip=False):
            return {"what": what, "is_empty": skip, "is_comment_only": False, "code_pkg": {"op_code": V(*op), "post_byte": V(*post), "additional": V(*add)}}
        stmts = [S("LDA #5", ("86", 2), ("", 0), ("05", 2)), S("LDY #$1234", ("108E", 4), ("", 0), ("1234", 4)), S("LDA ,X", ("A6", 2), ("84", 2), ("", 0)),
                 S("NEG <$10", ("00", 2), ("", 0), ("10", 2)), S("EXG D,D", ("1E", 2), ("00", 2), ("", 0)), S("an empty line", ("", 0), ("", 0), ("", 0), skip=True),
                 S("LDA $10,X", ("A6", 2), ("88", 2), ("10", 2)), S("FCB 0", ("", 0), ("", 0), ("00", 2))]
        for n_ in (0, 1, 3):
            e_ = fold_constructor(ctx, "NumericValue", {"value": 0, "size_hint": 2 * n_})
            se_ = {k: x for k, x in e_.items() if k.startswith("self.")}
            stmts.append(S("RMB %d" % n_, ("", 0), ("", 0), (fold_method(ctx, "NumericValue", "hex", se_), fold_method(ctx, "NumericValue", "hex_len", se_))))
        stmts.append(S("SWI (last statement)", ("3F", 2), ("", 0), ("", 0)))
        bad = None
        for k in range(len(stmts)):
            env = dict(ctx.env)
            env["self"] = {"statements": stmts[:k + 1]}
            got = fold_body(body, env)
            want = []
            for st in stmts[:k + 1]:
                if st["is_empty"]:
                    continue
                for fld in ("op_code", "post_byte", "additional"):
                    v = st["code_pkg"][fld]
                    want += list(bytes.fromhex(v["hex"][:v["hex_len"]]))
            if not isinstance(got, list):
                raise _NC("result %r" % (got,))
            if list(got) != want:
                bad = (stmts[k]["what"], got, want)
                break
        if bad:
            c.finding("get_binary_array:evaluated", "after %s the image is %s, the code packages hold %s" % (bad[0], bad[1][-6:], bad[2][-6:]),
                      "get_binary_array, folded over a model program, emits %s once `%s` is appended where the code packages hold %s: the image must be, statement by statement, the "
                      "hex_len digits of op_code, post_byte and additional (a field of length 0 - RMB 0 - contributes nothing; a field whose value is 0 contributes its bytes)"
                      % (bad[1], bad[0], bad[2]), where)
        else:
            c.ok("get_binary_array:evaluated", "folded over %d model statements (incl. RMB 0, opcode 00, post byte 00)" % len(stmts), where)
    except (_NC, _R, Exception) as e:
        c.undecided("get_binary_array:evaluated", "not-foldable", str(e)[:80], where)


def lay5(ctx, c):
    """LAY-5 emission: bytes = op_code, post_byte, additional, in that order, in the listing and in the image."""
    repo = ctx.repo
    f = repo.method("Program", "get_binary_array")
    where = repo.loc(f, f.node)
    order = []
    for n in ast.walk(f.node):
        if isinstance(n, ast.For) and isinstance(n.iter, ast.Call) and U(n.iter.func) == "range":
            m = re.search(r"code_pkg\.(\w+)\.hex_len\(\)", U(n.iter))
            if m:
                step = try_fold(n.iter.args[2]) if len(n.iter.args) == 3 else None
                start = try_fold(n.iter.args[0]) if len(n.iter.args) >= 2 else 0
                order.append((n.lineno, m.group(1), start, step, n))
    order.sort()
    names = [o[1] for o in order]
    if len(set(names)) == 3:
        c.check(names == ["op_code", "post_byte", "additional"], "get_binary_array:order", "op_code, post_byte, additional", "order %s" % names,
                "get_binary_array emits %s; an instruction is opcode, post-byte, operand" % names, where)
    else:
        # another shape (a loop over the three fields, a helper per field): order of first mention of each field
        first = {}
        for n in ast.walk(f.node):
            if isinstance(n, ast.Attribute) and n.attr in ("op_code", "post_byte", "additional") and U(n.value).endswith("code_pkg"):
                first.setdefault(n.attr, (n.lineno, n.col_offset))
        if len(first) == 3:
            seq = [k for k, _ in sorted(first.items(), key=lambda kv: kv[1])]
            c.check(seq == ["op_code", "post_byte", "additional"], "get_binary_array:order", "op_code, post_byte, additional", "order %s" % seq,
                    "get_binary_array takes the fields in order %s; an instruction is opcode, post-byte, operand" % seq, where)
        else:
            c.undecided("get_binary_array:order", "shape-not-recognised", "fields mentioned: %s" % sorted(first), where)
    # a field is emitted because it is there (its hex_len), not because its VALUE is non-zero: post byte 00 (TFR D,D) and opcode 00 (NEG <n) are real bytes
    zero_tests = [x for x in ast.walk(f.node) if isinstance(x, (ast.IfExp, ast.If)) and re.fullmatch(r"(not )?[\w.]*code_pkg\.(op_code|post_byte|additional)\.int( (!=|>|==) 0)?", U(x.test))]
    if zero_tests:
        c.finding("get_binary_array:zero-valued-field", "a field is emitted only when its value is non-zero (%s)" % U(zero_tests[0].test)[:50],
                  "get_binary_array tests `%s` before emitting the field: a post byte or opcode whose value is 0 is a byte of the instruction (EXG D,D is 1E 00, NEG <$10 is 00 10), "
                  "so the image is one byte short of what the listing reserves and every later byte lies one address low" % U(zero_tests[0].test)[:60], repo.loc(f, zero_tests[0]))
    else:
        c.ok("get_binary_array:zero-valued-field", "no field is skipped for having the value 0", where)
    for ln, name, start, step, node in order:
        c.check(start == 0 and step == 2, "get_binary_array:%s" % name, "every byte (2 hex digits) emitted", "range start %s step %s" % (start, step),
                "get_binary_array walks the %s hex string from %s in steps of %s" % (name, start, step), repo.loc(f, node))
        # the digits come from the same field whose length bounds the loop
        srcs = set(re.findall(r"code_pkg\.(\w+)\.hex\(\)", U(node)))
        c.check(srcs == {name}, "get_binary_array:%s:source" % name, "digits of %s" % name, "loop over %s reads digits of %s" % (name, sorted(srcs)),
                "get_binary_array walks the length of %s but takes the digits from %s" % (name, sorted(srcs)), repo.loc(f, node))
        # the byte is built from digits index and index+1, base 16
        txt = U(node)
        good = re.search(r"\[%s\], \w+\[%s \+ 1\]" % (U(node.target), U(node.target)), txt) is not None and "int(hex_byte, 16)" in txt
        if not good:
            c.undecided("get_binary_array:%s:digits" % name, "byte-construction-shape-unknown", "", repo.loc(f, node))
        else:
            c.ok("get_binary_array:%s:digits" % name, "byte = digits i, i+1 base 16", repo.loc(f, node))
    # the loop over the statements visits all of them: an early exit drops the tail of the program from the image while the
    # address pass has laid it out
    for n in ast.walk(f.node):
        if isinstance(n, ast.For) and "statements" in U(n.iter):
            inner = [x for x in ast.walk(n) if isinstance(x, ast.For) and x is not n]
            exits = [x for x in ast.walk(n) if isinstance(x, (ast.Break, ast.Return)) and not any(x in list(ast.walk(i)) for i in inner)]
            sliced = isinstance(n.iter, ast.Subscript) or (isinstance(n.iter, ast.Call) and U(n.iter.func) in ("itertools.takewhile", "takewhile", "itertools.islice", "islice"))
            if isinstance(n.iter, ast.Name) and n.iter.id != "self":
                # a local copy of the statement list: nothing may be taken out of it before the loop
                removed = [x for x in ast.walk(f.node) if isinstance(x, ast.Call) and isinstance(x.func, ast.Attribute) and U(x.func.value) == n.iter.id
                           and x.func.attr in ("pop", "remove", "clear") and getattr(x, "lineno", 0) < n.lineno]
                removed += [x for x in ast.walk(f.node) if isinstance(x, ast.Delete) and any(U(t_).startswith(n.iter.id + "[") for t_ in x.targets) and x.lineno < n.lineno]
                if removed:
                    c.finding("get_binary_array:statement-loop", "statements are taken out of the list before it is emitted (%s)" % U(removed[0])[:40],
                              "get_binary_array removes statements from its copy of the list (`%s`) before emitting: those statements have addresses and sizes in the listing but "
                              "no bytes in the image, and a program that is later extended changes the bytes already emitted for its beginning" % U(removed[0])[:50], repo.loc(f, removed[0]))
                    continue
            reordered = isinstance(n.iter, ast.Call) and U(n.iter.func) in ("sorted", "reversed") or \
                any(isinstance(x, ast.Call) and isinstance(x.func, ast.Attribute) and x.func.attr in ("sort", "reverse") and "statements" in U(x.func.value) for x in ast.walk(f.node))
            if reordered:
                c.finding("get_binary_array:statement-loop", "the statements are emitted in another order than they were written (%s)" % U(n.iter)[:50],
                          "get_binary_array iterates over `%s`: the image is the bytes of the statements in source order starting at the origin - sorted by address, a program "
                          "with a second ORG below the first (or appended statements that go back) is emitted in an order no loader expects, and what was emitted before is no longer "
                          "a prefix of the new image" % U(n.iter)[:70], repo.loc(f, n))
            elif exits:
                c.finding("get_binary_array:statement-loop", "early exit from the loop over the statements",
                          "get_binary_array leaves the loop over the statements early (%s): the statements after that point have addresses and sizes in the listing "
                          "but no bytes in the image" % U(exits[0]), repo.loc(f, exits[0]))
            elif sliced:
                c.finding("get_binary_array:statement-loop", "only part of the statements is emitted",
                          "get_binary_array iterates over %s, not over all statements" % U(n.iter), repo.loc(f, n))
            else:
                c.ok("get_binary_array:statement-loop", "no early exit", repo.loc(f, n))
    _lay5_evaluated(ctx, c, f, where)
    s = repo.method("Statement", "__str__")
    first = {}
    for n in ast.walk(s.node):
        if isinstance(n, ast.Attribute) and n.attr in ("op_code", "post_byte", "additional"):
            first.setdefault(n.attr, (n.lineno, n.col_offset))
    seq = [k for k, _ in sorted(first.items(), key=lambda kv: kv[1])]
    if len(seq) < 3:
        c.undecided("Statement.__str__:order", "fields-not-all-mentioned", str(seq), repo.loc(s, s.node))
    else:
        c.check(seq == ["op_code", "post_byte", "additional"], "Statement.__str__:order", "listing shows op_code, post_byte, additional", "listing order %s" % seq,
                "the listing concatenates %s" % seq, repo.loc(s, s.node))


EAM = "ExplicitAddressingMode."
LITERALS = [  # (constructor argument, magnitude, negative, what)
    ("$12", 0x12, False, "two-digit hex"), ("$1234", 0x1234, False, "four-digit hex"), ("$0012", 0x12, False, "padded hex"),
    ("%00010010", 0x12, False, "8-bit binary"), ("%0001001000110100", 0x1234, False, "16-bit binary"),
    ("18", 18, False, "small decimal"), ("300", 300, False, "large decimal"), ("'A", 65, False, "character"),
    ("-5", 5, True, "negative decimal"), ("-300", 300, True, "large negative decimal"),
    (0, 0, False, "integer 0"), (18, 18, False, "small integer"), (300, 300, False, "large integer"), (-5, 5, True, "negative integer"),
]


def fold_constructor(ctx, cls, args):
    """fold <cls>.__init__ (helpers inlined, the super().__init__ call folded through the base class) over constant arguments;
    returns the final environment (self.<attr> -> value), raises Raised/NotConst"""
    from ..inline import flatten
    from ..consteval import fold_body, Raised
    repo = ctx.repo
    def build():
        init = repo.method(cls, "__init__")          # the class's own constructor, or the one it inherits
        return init, body_without_doc(flatten(repo, init, depth=2))
    init, body = ctx.memo(("flat-init", cls), build)
    params = [p for p in init.params if p != "self"]
    defaults = init.node.args.defaults
    env = dict(ctx.env)
    env.update(ctx.self_env(cls))                     # class constants as the instance sees them (self.WIDTH of the concrete class)
    for p_, d_ in zip(params[len(params) - len(defaults):], defaults):
        env[p_] = fold(d_, ctx.env)
    env.update(args)
    for st in body:
        final = {}
        if isinstance(st, ast.Expr) and isinstance(st.value, ast.Call) and U(st.value.func) in ("super().__init__", "Value.__init__", "super(%s, self).__init__" % cls):
            call = st.value
            owner = init.cls.name if init.cls is not None else cls
            bases = [b for b in repo.ancestors(owner) if b in repo.classes and "__init__" in repo.cls(b).methods and b != owner]
            if not bases:
                raise NotConst("no base constructor")
            sub = fold_constructor_env(ctx, bases[0], call, env)
            env.update({k: v for k, v in sub.items() if k.startswith("self.")})
            continue
        done = [False]
        marker = object()
        r = fold_body([st, ast.Return(value=ast.Constant(value="__fell_through__"))], env, final=final)
        env = final
        if r != "__fell_through__":
            break
    return env


def fold_constructor_env(ctx, base, call, env):
    repo = ctx.repo
    init = repo.method(base, "__init__")
    params = [p for p in init.params if p != "self"]
    args = {}
    pos = call.args[1:] if U(call.func).startswith("Value.") else call.args
    for p_, a in zip(params, pos):
        args[p_] = fold(a, env)
    for k in call.keywords:
        if k.arg:
            args[k.arg] = fold(k.value, env)
    return fold_constructor(ctx, base, args)


def wid8(ctx, c):
    """WID-8 the NumericValue constructor folded as a whole for every literal kind x width hint x addressing prefix:
    magnitude and sign, a prefix is never overridden by the spelling, a width hint given by the instruction is kept."""
    from ..consteval import Raised
    repo = ctx.repo
    init = repo.method(NV, "__init__")
    where = repo.loc(init, init.node)
    env = ctx.env
    need = ["NONE", "DIRECT", "EXTENDED", "IMMEDIATE", "EXPLICIT_DIRECT", "EXPLICIT_EXTENDED"]
    if any(EAM + k not in env for k in need):
        c.undecided("ExplicitAddressingMode", "members-not-foldable", "", where)
        return
    M = {k: env[EAM + k] for k in need}
    dirs = {M["DIRECT"], M["EXPLICIT_DIRECT"]}
    mode_param = "mode" if "mode" in init.params else None
    hint_param = "size_hint" if "size_hint" in init.params else None
    if not mode_param or not hint_param or "value" not in init.params:
        c.undecided(NV + ".__init__", "parameters-not-recognised", str(init.params), where)
        return
    n = 0
    undec = {}
    for lit, mag, neg, what in LITERALS:
        hints = [None, 2, 4] + ([0] if lit == 0 else [])
        for hint in hints:
            for mname in need:
                site = "%s(%r, size_hint=%s, mode=%s)" % (NV, lit, hint, mname)
                try:
                    out = fold_constructor(ctx, NV, {"value": lit, hint_param: hint, mode_param: M[mname]})
                except Raised as e:
                    c.finding("%s:%s" % (what, mname), "rejected", "%s raises %s for a valid %s literal" % (site, e.name, what), where)
                    continue
                except NotConst as e:
                    undec.setdefault(str(e), site)
                    continue
                n += 1
                got = (out.get("self.int"), bool(out.get("self.negative")))
                c.check(got == (mag, neg), "%s:value" % what, "magnitude %d negative %s" % (mag, neg), "magnitude %s negative %s (expected %d, %s)" % (got[0], got[1], mag, neg),
                        "%s yields magnitude %s negative=%s; the literal means %s%d" % (site, got[0], got[1], "-" if neg else "", mag), where)
                omode, ohint = out.get("self.explict_addressing_mode"), out.get("self.size_hint")
                if mname == "EXPLICIT_EXTENDED":
                    c.check(omode not in dirs and omode != M["IMMEDIATE"] and ohint == 4, "%s:>" % what, "> keeps extended addressing, 16-bit field",
                            "after > the value is %s with width hint %s" % ("direct" if omode in dirs else "mode %s" % omode, ohint),
                            "%s: an operand written with > comes out %s with width hint %s, so the explicit extended prefix is overridden by the spelling of the %s"
                            % (site, "direct" if omode in dirs else "as mode %s" % omode, ohint, what), where)
                elif mname == "EXPLICIT_DIRECT":
                    c.check(omode in dirs, "%s:<" % what, "< keeps direct addressing", "after < the value has mode %s" % omode,
                            "%s: an operand written with < comes out with mode %s, not direct" % (site, omode), where)
                elif mname == "IMMEDIATE":
                    c.check(omode == M["IMMEDIATE"], "%s:#" % what, "# stays immediate", "after # the value has mode %s" % omode,
                            "%s: an immediate operand comes out with mode %s" % (site, omode), where)
                if hint is None and isinstance(ohint, int) and isinstance(got[0], int) and ohint > 0 and got[0] >= 16 ** ohint:
                    c.finding("%s:own-width" % what, "the constructor gives the value %d a width of %d hex digit(s)" % (got[0], ohint),
                              "%s: no width was asked for, the constructor settles on %d hex digit(s) for the value $%X - the digits that do not fit are dropped when the operand is emitted"
                              % (site, ohint, got[0]), where)
                if hint is None and mname == "NONE" and isinstance(got[0], int) and not got[1] and 0 <= got[0] <= 0xFFFF:
                    # an operand without prefix and without a width asked for renders as wide as its value needs: the index-offset arms emit that rendering into
                    # a slot chosen by magnitude (one byte for 16..127), so a wider rendering is more bytes than the statement reserves
                    try:
                        hl = fold_method(ctx, NV, "hex_len", {k_: v_ for k_, v_ in out.items() if k_.startswith("self.")})
                    except (NotConst, Raised, Exception):
                        hl = None
                    need_w = 2 if got[0] <= 0xFF else 4
                    if isinstance(hl, int) and hl > need_w:
                        c.finding("%s:own-width" % what, "the constructor renders the value $%X with %d hex digits" % (got[0], hl),
                                  "%s: no prefix and no width were given, yet the value $%X renders with %d hex digits; used as a constant index offset (8-bit form, one offset byte reserved) "
                                  "it is emitted as %d bytes" % (site, got[0], hl, hl // 2), where)
                if mname in ("NONE", "EXTENDED") and omode in dirs and isinstance(got[0], int) and got[0] > 0xFF:
                    c.finding("%s:own-mode" % what, "the value $%X is marked direct" % got[0],
                              "%s: the constructor marks $%X as a direct-page address; a direct operand is one byte" % (site, got[0]), where)
                if hint is not None and mname not in ("EXTENDED", "EXPLICIT_EXTENDED"):
                    c.check(ohint == hint, "%s:hint" % what, "the instruction's width hint is kept", "width hint %s becomes %s" % (hint, ohint),
                            "%s: the width the instruction asked for (%s hex digits) is replaced by %s because of the spelling of the %s" % (site, hint, ohint, what), where)
    for lit, what in (("65536", "decimal above 65535"), ("70000", "decimal above 65535"), ("$12345", "hex of five digits"), ("%101", "binary of 3 bits"),
                      ("%010101010", "binary of 9 bits"), ("-32769", "decimal below -32768"), ("-70000", "decimal below -32768"), (65536, "integer above 65535")):
        accepted = []
        for hint in (None, 2, 4):
            for mname in need:
                site = "%s(%r, size_hint=%s, mode=%s)" % (NV, lit, hint, mname)
                try:
                    out = fold_constructor(ctx, NV, {"value": lit, hint_param: hint, mode_param: M[mname]})
                except Raised as e:
                    n += 1
                    continue
                except NotConst as e:
                    undec.setdefault(str(e), site)
                    continue
                n += 1
                accepted.append((site, out.get("self.int")))
        if accepted:
            c.finding("%r:rejected" % (lit,), "a %s is accepted" % what,
                      "%s is accepted (magnitude %s; %d of 18 hint/prefix combinations accept it): a %s does not fit 16 bits / is not a byte or word pattern and "
                      "would be encoded as something else" % (accepted[0][0], accepted[0][1], len(accepted), what), where)
        else:
            c.ok("%r:rejected" % (lit,), "rejected under every hint and prefix", where)
    # words that are symbol names must not read as numbers: the value cascade tries NumericValue before SymbolValue
    for word in ("DECH", "ABH", "BH", "FACE", "BEEF", "CAFEH", "A1H", "X", "LOOP", "A@B", "HEX", "OB", "B1", "D0", "O17", "Q"):
        accepted = []
        for mname in ("NONE", "EXTENDED"):
            try:
                out = fold_constructor(ctx, NV, {"value": word, hint_param: None, mode_param: M[mname]})
            except Raised:
                n += 1
                continue
            except NotConst as e:
                undec.setdefault(str(e), "%s(%r)" % (NV, word))
                continue
            n += 1
            accepted.append(out.get("self.int"))
        if accepted:
            c.finding("%r:not-a-number" % word, "a symbol name is read as the number %s" % accepted[0],
                      "NumericValue(%r) is accepted as the number %s: %s is a legal label, and Value.create_from_str tries NumericValue before SymbolValue, so a reference to the "
                      "label %s assembles as a constant instead of the label's address" % (word, accepted[0], word, word), where)
        else:
            c.ok("%r:not-a-number" % word, "rejected, left to SymbolValue", where)
    for why, site in undec.items():
        c.undecided(NV + ".__init__", "constructor-not-foldable", "%s at %s" % (why, site), where)
    c.ok(NV + ".__init__", "%d constructor evaluations" % n, where, nontrivial=False)


def fold_method(ctx, cls, name, selfenv, args=(), kwargs=None, depth=0):
    """fold <cls>.<name>(*args) over a constant object state (selfenv: 'self.x' -> value); calls of other methods of the object
    are folded the same way (inherited lookup)"""
    from ..consteval import fold_body
    if depth > 6:
        raise NotConst("method recursion")
    repo = ctx.repo
    fn = repo.method(cls, name)
    params = [p for p in fn.params if p != "self"]
    env = dict(ctx.env)
    env.update(ctx.self_env(cls))
    env.update(selfenv)
    defaults = fn.node.args.defaults
    for p_, d_ in zip(params[len(params) - len(defaults):], defaults):
        env[p_] = fold(d_, ctx.env)
    for p_, a in zip(params, args):
        env[p_] = a
    env.update(kwargs or {})

    class Calls(dict):
        def __contains__(self, key):
            return isinstance(key, str) and key.startswith("self.") and key.count(".") == 1 and repo.lookup(repo.cls(cls), key[5:]) is not None

        def __getitem__(self, key):
            return lambda *a, **kw: fold_method(ctx, cls, key[5:], selfenv, a, kw, depth + 1)

        def __bool__(self):
            return True
    return fold_body(body_without_doc(fn.node), env, calls=Calls())


def wid9(ctx, c):
    """WID-9 rendering of a NumericValue folded for boundary values x width hints: hex_len, hex, byte_len, high_byte, low_byte and the
    two's complement of negatives equal the reference for every value that fits its width."""
    from ..consteval import Raised
    repo = ctx.repo
    f = repo.method(NV, "hex", inherited=False)
    where = repo.loc(f, f.node)

    def even_len(n):
        k = len("%X" % n)
        return k + (k % 2)
    cases = []
    for n in (0, 5, 0x12, 0x7F, 0x80, 0xFF, 0x100, 0x123, 0x1234, 0x8000, 0xFFFF):
        for hint in (None, 2, 4):
            if hint == 2 and n > 0xFF:
                continue
            w = hint or even_len(n)
            st = {"self.int": n, "self.size_hint": hint, "self.negative": False}
            cases.append((st, "hex_len", (), w))
            cases.append((st, "hex", (), "%0*X" % (w, n)))
            cases.append((st, "byte_len", (), w // 2))
            cases.append((st, "high_byte", (), (n >> 8) & 0xFF))
            cases.append((st, "low_byte", (), n & 0xFF))
            if n <= 0xFF:
                cases.append((st, "hex", (2,), "%02X" % n))
            cases.append((st, "hex", (4,), "%04X" % n))
    for n in (1, 5, 0x7F, 0x80):
        for hint in (None, 2):
            st = {"self.int": n, "self.size_hint": hint, "self.negative": True}
            cases.append((st, "hex", (2,), "%02X" % (0x100 - n)))
            cases.append((st, "hex", (), "%02X" % (0x100 - n)))
            cases.append((st, "get_negative", (), 0x100 - n))
    for n in (1, 5, 0x80, 0x81, 0x100, 0x8000):
        st = {"self.int": n, "self.size_hint": 4, "self.negative": True}
        cases.append((st, "hex", (), "%04X" % (0x10000 - n)))
        cases.append((st, "hex", (4,), "%04X" % (0x10000 - n)))
        st = {"self.int": n, "self.size_hint": None, "self.negative": True}
        cases.append((st, "hex", (4,), "%04X" % (0x10000 - n)))
    preds = []
    for n in (0, 1, 15, 16, 17, 127, 128, 129, 255, 256, 32768):
        for neg in (False, True):
            st = {"self.int": n, "self.size_hint": None, "self.negative": neg}
            w4 = n <= (16 if neg else 15)
            w8 = n <= (128 if neg else 127)
            preds.append((st, w4, w8))
    n_ok = 0
    bad = {}
    undec = {}
    for st, meth, args, want in cases:
        desc = "%s%s%s" % ("-" if st["self.negative"] else "", "$%X" % st["self.int"], "" if st["self.size_hint"] is None else " (width hint %d)" % st["self.size_hint"])
        try:
            got = fold_method(ctx, NV, meth, st, args)
        except Raised as e:
            got = "raises %s" % e.name
        except NotConst as e:
            undec.setdefault(meth, "%s for %s" % (e, desc))
            continue
        if got == want:
            n_ok += 1
        else:
            bad.setdefault(meth, (desc, args, got, want))
    # width predicates: a narrower claim is harmless (a wider form of the same offset is chosen), a wider claim is not; some predicate must hold
    pbad = None
    pund = None
    for st, w4, w8 in preds:
        desc = "%s$%X" % ("-" if st["self.negative"] else "", st["self.int"])
        try:
            g4, g8, g16 = (bool(fold_method(ctx, NV, m_, st)) for m_ in ("is_4_bit", "is_8_bit", "is_16_bit"))
        except (NotConst, Raised) as e:
            pund = "%s for %s" % (e, desc)
            break
        n_ok += 1
        if g4 and not w4:
            pbad = pbad or ("is_4_bit", desc, "claims a 5-bit field (-16..+15) holds %s" % desc)
        if g8 and not w8:
            pbad = pbad or ("is_8_bit", desc, "claims an 8-bit field (-128..+127) holds %s" % desc)
        if w8 and not g8 and not g16:
            # the indirect forms [n,R] have no 5-bit encoding and ask is_8_bit() first: a value that fits eight bits and is refused by both wider
            # predicates falls through to the catch-all arm of ExtendedIndexedOperand.translate
            pbad = pbad or ("is_8_bit", desc, "holds for neither is_8_bit() nor is_16_bit() although %s fits eight bits: [n,R] has no 5-bit form to fall back on" % desc)
        if not (g4 or g8 or g16):
            pbad = pbad or ("is_16_bit", desc, "no width predicate holds for %s: the encoders fall through to their last arm" % desc)
    if pbad:
        c.finding("%s.%s" % (NV, pbad[0]), "%s() is wrong for %s" % (pbad[0], pbad[1]),
                  "%s.%s %s, so the indexed encoders pick a form whose offset field cannot hold the value" % (NV, pbad[0], pbad[2]), where)
    elif pund:
        c.undecided("%s.width-predicates" % NV, "method-not-foldable", pund, where)
    else:
        c.ok("%s.width-predicates" % NV, "no predicate claims more than its field holds; one always holds", where)
    for meth in ("hex_len", "hex", "byte_len", "high_byte", "low_byte", "get_negative"):
        if meth in bad:
            desc, args, got, want = bad[meth]
            c.finding("%s.%s" % (NV, meth), "%s(%s) of %s is %r" % (meth, ", ".join(map(str, args)), desc, got),
                      "%s.%s(%s) of the value %s gives %r; the reference rendering is %r (even number of hex digits, the hinted width, two's complement of negatives)"
                      % (NV, meth, ", ".join(map(str, args)), desc, got, want), where)
        elif meth in undec:
            c.undecided("%s.%s" % (NV, meth), "method-not-foldable", undec[meth], where)
        else:
            c.ok("%s.%s" % (NV, meth), "reference rendering on every boundary case", where)
    c.ok(NV, "%d renderings folded" % n_ok, where, nontrivial=False)



def wid10(ctx, c):
    """WID-10 the part of WID-9 the image writers rely on: high_byte() / low_byte() of 16-bit values (used by C11, C14)."""
    from ..report import Collector
    tmp = ctx.cache.get(("rule", "WID-9"))
    if tmp is None:
        tmp = Collector("WID-9")
        wid9(ctx, tmp)
    for i in tmp.insts:
        if i.site.endswith(".high_byte") or i.site.endswith(".low_byte"):
            c.insts.append(i)

def wid10_constructed(ctx, c):
    """high_byte() / low_byte() of a NumericValue as its constructor leaves it (the way the image writers meet addresses and lengths):
    constructor folded for the value, then the two accessors folded on the resulting state"""
    from ..consteval import Raised
    repo = ctx.repo
    init = repo.method(NV, "__init__")
    where = repo.loc(init, init.node)
    bad, und = None, None
    n = 0
    for v in (0, 1, 255, 256, 257, 0x0E00, 0x1234, 0x7FFF, 0x8000, 0xFF00, 0xFFFF):
        for spell in (v, "$%X" % v, "%d" % v):
            try:
                st = fold_constructor(ctx, NV, {"value": spell})
                selfenv = {k: x for k, x in st.items() if k.startswith("self.")}
                hi = fold_method(ctx, NV, "high_byte", selfenv)
                lo = fold_method(ctx, NV, "low_byte", selfenv)
            except Raised as e:
                bad = bad or (spell, "rejected (%s)" % e.name, None)
                continue
            except (NotConst, Exception) as e:
                und = und or "%s for %r" % (str(e)[:60], spell)
                continue
            n += 1
            if (hi, lo) != (v >> 8, v & 0xFF):
                bad = bad or (spell, hi, lo)
    if und:
        c.undecided("NumericValue:bytes-as-constructed", "not-foldable", und, where)
    elif bad:
        c.finding("NumericValue:bytes-as-constructed", "NumericValue(%r) gives high byte %s, low byte %s" % bad,
                  "NumericValue(%r), as the constructor leaves it, answers high_byte() = %s and low_byte() = %s: the image writers store addresses and lengths through these two calls, "
                  "so the header of the saved file carries another address" % bad, where)
    else:
        c.ok("NumericValue:bytes-as-constructed", "high/low byte of %d constructed values" % n, where)


RULES = {"WID-10": (lambda ctx, c: (wid10(ctx, c), wid10_constructed(ctx, c))), "WID-9": wid9, "WID-8": wid8, "WID-6": wid6, "WID-1": wid1, "WID-3": wid3, "WID-5": wid5, "LAY-5": lay5}
