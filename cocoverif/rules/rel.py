"""REL rules: branch displacement identity and range guard (fix_addresses), PC-relative sizing (determine_pcr_relative_sizes)."""
import ast
import re

from ..model import U, body_without_doc, AnalysisError
from ..consteval import try_fold
from ..absint import Interp, Ctor, Lin, Const, Opq, Bits, PathCap, strip_ver

ST = "Statement"


class Aff:
    def __init__(self, terms=None, c=0):
        self.t = {k: v for k, v in (terms or {}).items() if v}
        self.c = c

    def __add__(self, o):
        t = dict(self.t)
        for k, v in o.t.items():
            t[k] = t.get(k, 0) + v
        return Aff(t, self.c + o.c)

    def __neg__(self):
        return Aff({k: -v for k, v in self.t.items()}, -self.c)

    def __sub__(self, o):
        return self + (-o)

    def __repr__(self):
        return " + ".join(["%d*%s" % (v, k) for k, v in sorted(self.t.items())] + [str(self.c)])

    def __eq__(self, o):
        return self.t == o.t and self.c == o.c


class NotAffine(Exception):
    pass


def idx(n, env, sides=None):
    if isinstance(n, ast.Call) and U(n.func) == "sum" and len(n.args) == 1 and isinstance(n.args[0], (ast.GeneratorExp, ast.ListComp)) and len(n.args[0].generators) == 1:
        # sum(x.code_pkg.size for x in statements[a:b])  =  A[b] - A[a]   (for a <= b: recorded as a side condition)
        g = n.args[0].generators[0]
        if isinstance(g.iter, ast.Subscript) and isinstance(g.iter.slice, ast.Slice) and not g.ifs and isinstance(g.target, ast.Name) \
                and re.fullmatch(r"%s\.code_pkg\.size" % re.escape(g.target.id), U(n.args[0].elt)):
            a = idx(g.iter.slice.lower, env, sides) if g.iter.slice.lower else Aff(c=0)
            b = idx(g.iter.slice.upper, env, sides)
            if sides is not None:
                sides.append((a, b, n))
            return A(b) - A(a)
        raise NotAffine(U(n))
    if isinstance(n, ast.Name):
        if n.id in env:
            return env[n.id]
        return Aff({n.id: 1})
    if isinstance(n, ast.Constant) and isinstance(n.value, int) and not isinstance(n.value, bool):
        return Aff(c=n.value)
    if isinstance(n, ast.BinOp) and isinstance(n.op, (ast.Add, ast.Sub)):
        l, r = idx(n.left, env, sides), idx(n.right, env, sides)
        return l + r if isinstance(n.op, ast.Add) else l - r
    if isinstance(n, ast.BinOp) and isinstance(n.op, ast.Mult):
        l, r = idx(n.left, env, sides), idx(n.right, env, sides)
        if not l.t:
            return Aff({k: v * l.c for k, v in r.t.items()}, r.c * l.c)
        if not r.t:
            return Aff({k: v * r.c for k, v in l.t.items()}, l.c * r.c)
    if isinstance(n, ast.BinOp) and isinstance(n.op, (ast.FloorDiv, ast.Div, ast.Mod, ast.LShift, ast.RShift)):
        l, r = idx(n.left, env, sides), idx(n.right, env, sides)
        if not l.t and not r.t and r.c != 0:
            v_ = {ast.FloorDiv: lambda a, b: a // b, ast.Div: lambda a, b: a / b, ast.Mod: lambda a, b: a % b, ast.LShift: lambda a, b: a << b, ast.RShift: lambda a, b: a >> b}[type(n.op)](l.c, r.c)
            if v_ == int(v_):
                return Aff(c=int(v_))
    if isinstance(n, ast.Attribute) and U(n) in ("self.code_pkg.size", "self.code_pkg.max_size", "self.instruction.mode.rel_sz"):
        return env.get(U(n), Aff({U(n): 1}))
    raise NotAffine(U(n))


def A(i):
    return Aff({"A[%r]" % (i,): 1})


def _delta_interval(conds, this="this", target="target"):
    """conditions on target vs this -> (lo, hi) interval of delta = target - this (None = unbounded)"""
    lo, hi = None, None
    for text, truth in conds:
        m = re.fullmatch(r"(\w+) (<|<=|>|>=) (\w+)", text)
        if not m:
            continue
        a, op, b = m.groups()
        if {a, b} != {this, target}:
            continue
        # normalise to delta = target - this  OP' 0
        if a == this:
            op = {"<": ">", "<=": ">=", ">": "<", ">=": "<="}[op]
        if not truth:
            op = {"<": ">=", "<=": ">", ">": "<=", ">=": "<"}[op]
        if op == "<":
            hi = -1 if hi is None else min(hi, -1)
        elif op == "<=":
            hi = 0 if hi is None else min(hi, 0)
        elif op == ">":
            lo = 1 if lo is None else max(lo, 1)
        elif op == ">=":
            lo = 0 if lo is None else max(lo, 0)
    return lo, hi


class BranchEval:
    """affine evaluation of the relative-branch arm of fix_addresses"""
    def __init__(self, this_name, target_name):
        self.this_name, self.target_name = this_name, target_name
        self.out = []          # emitted: (conds, value Aff, hint Aff, guards, side_conditions)
        self.notes = []
        self.origins = {}      # free symbol -> source text of the non-affine expression it stands for

    def run(self, stmts, env, conds, guards, sides):
        for k, s in enumerate(stmts):
            if isinstance(s, ast.Assign) and len(s.targets) == 1:
                t = U(s.targets[0])
                v = s.value
                if isinstance(v, ast.IfExp):
                    for truth in (True, False):
                        known = dict(conds).get(U(v.test))
                        if known is not None and known != truth:
                            continue
                        e2 = dict(env)
                        c2 = list(conds) + ([(U(v.test), truth)] if known is None else [])
                        try:
                            e2[t] = idx(v.body if truth else v.orelse, e2, sides)
                        except NotAffine:
                            e2[t] = Aff({t: 1})
                        self.run(stmts[k + 1:], e2, c2, list(guards), list(sides))
                    return
                if isinstance(v, ast.Call) and U(v.func) == "NumericValue" and t.endswith("code_pkg.additional"):
                    try:
                        val = idx(v.args[0], env, sides)
                        hint = next((idx(kw.value, env) for kw in v.keywords if kw.arg == "size_hint"), None)
                    except NotAffine as e:
                        self.notes.append("emission not affine: %s" % e)
                        continue
                    self.out.append((list(conds), val, hint, list(guards), list(sides), s))
                    continue
                try:
                    env[t] = idx(v, env, sides)
                except NotAffine:
                    env[t] = Aff({t: 1})
                    self.origins[t] = U(v)
            elif isinstance(s, ast.For) and isinstance(s.iter, ast.Subscript) and isinstance(s.iter.slice, ast.Slice):
                try:
                    a = idx(s.iter.slice.lower, env) if s.iter.slice.lower else Aff(c=0)
                    b = idx(s.iter.slice.upper, env)
                except NotAffine as e:
                    self.notes.append("slice not affine: %s" % e)
                    continue
                body = s.body[0] if len(s.body) == 1 else None
                if not (isinstance(body, ast.AugAssign) and isinstance(body.op, ast.Add) and re.search(r"\.code_pkg\.size$", U(body.value))
                        and U(body.value).split(".")[0] == U(s.target)):
                    self.notes.append("loop body not a size accumulation: %s" % (U(s.body[0])[:60] if s.body else ""))
                    continue
                acc = U(body.target)
                env[acc] = env.get(acc, Aff({acc: 1})) + A(b) - A(a)
                sides.append((a, b, s))
            elif isinstance(s, ast.If):
                # guard: if <...> and length > K: raise
                if s.body and isinstance(s.body[-1], ast.Raise) and not s.orelse:
                    guards.append(s)
                    continue
                for truth in (True, False):
                    e2 = dict(env)
                    c2 = list(conds) + [(U(s.test), truth)]
                    self.run((s.body if truth else s.orelse) + stmts[k + 1:], e2, c2, list(guards), list(sides))
                return
            elif isinstance(s, ast.Return):
                return


def rel1(ctx, c):
    """REL-1 displacement identity + side condition, REL-2 short-branch range guard, REL-6 non-label operands."""
    repo = ctx.repo
    fn = repo.method(ST, "fix_addresses")
    where = repo.loc(fn, fn.node)
    body = body_without_doc(fn.node)
    rel = next((s for s in body if isinstance(s, ast.If) and "is_relative" in U(s.test)), None)
    if rel is None:
        raise AnalysisError("REL-1: the relative-operand arm of Statement.fix_addresses was not found")
    params = [p for p in fn.params if p != "self"]
    this_name = params[1] if len(params) > 1 else "this_index"
    # the variable holding the target index: assigned from code_pkg.additional.int
    target_name = None
    for s in rel.body:
        if isinstance(s, ast.Assign) and U(s.value).endswith("code_pkg.additional.int"):
            target_name = U(s.targets[0])
    if target_name is None:
        c.undecided("fix_addresses:relative", "target-index-variable-not-found", "", where)
        return
    ev = BranchEval(this_name, target_name)
    env = {this_name: Aff({"this": 1}), target_name: Aff({"target": 1})}
    stm = [s for s in rel.body if not (isinstance(s, ast.Assign) and U(s.targets[0]) == target_name)]
    ev.run(stm, env, [], [], [])
    for n in ev.notes:
        c.undecided("fix_addresses:relative", "shape", n, where)
    c.floor("relative-branch emissions", len(ev.out), 2)
    short_atoms = ("self.instruction.is_short_branch",)
    for conds, val, hint, guards, sides, node in ev.out:
        cd = dict(conds)
        short = cd.get("self.instruction.is_short_branch")
        conds_n = [(t.replace(target_name, "target").replace(this_name, "this"), v) for t, v in conds]
        lo, hi = _delta_interval(conds_n)
        direction = "backward" if hi is not None and hi <= 0 else ("forward" if lo is not None and lo >= 0 else "?")
        site = "fix_addresses:%s/%s" % ("short" if short else ("long" if short is False else "any"), direction)
        w = repo.loc(fn, node)
        SIZEVARS = {"self.code_pkg.size", "self.code_pkg.max_size", "self.instruction.mode.rel_sz"}
        if hint is not None and hint.t and set(hint.t) <= SIZEVARS:
            # the width is derived from the statement's size: evaluate it for every branch row of the instruction table
            eff_rows, _ = ctx.effective_rows()
            wrong = []
            for m_, r_ in sorted(eff_rows.items(), key=lambda kv: str(kv[0])):
                if r_.flags["is_pseudo"] or r_.modes["rel"][0] is None:
                    continue
                is_s = bool(r_.flags["is_short_branch"])
                if short is not None and short != is_s:
                    continue
                hv = hint.c + sum(k_ * r_.modes["rel"][1] for k_ in hint.t.values())
                if hv != (2 if is_s else 4):
                    wrong.append((m_, hv, 2 if is_s else 4))
            if wrong:
                c.finding(site + ":width", "width derived from the statement size is %s hex digits for %s" % (wrong[0][1], wrong[0][0]),
                          "fix_addresses renders the displacement with size_hint %r: for %s (size %s) that is %s hex digits where the field has %s (%d of the branch rows are wrong), "
                          "so the bytes after the opcode are not the displacement" % (hint, wrong[0][0], eff_rows[wrong[0][0]].modes["rel"][1], wrong[0][1], wrong[0][2], len(wrong)), w)
            else:
                c.ok(site + ":width", "width derived from the statement size equals the field width for every branch row", w)
            continue
        call_ = node.value if isinstance(node, ast.Assign) else None
        if hint is None and isinstance(call_, ast.Call) and len(call_.args) == 1 and all(k.arg and k.arg != "size_hint" for k in call_.keywords):
            # no width is asked for: the value picks its own from its magnitude; decided by folding the constructor and hex_len for distances the arm can see
            try:
                from .wid import fold_constructor as _fc, fold_method as _fm
                from ..consteval import fold as _fold1
                kws_ = {k.arg: _fold1(k.value, dict(ctx.env)) for k in call_.keywords}
                bad_w = None
                for is_s in ([bool(short)] if short is not None else [True, False]):
                    for dist in ((0, 5, 127) if is_s else (0, 5, 127, 255, 256, 4000)):
                        dv = dist if direction != "backward" else (0x100 if is_s else 0x10000) - max(dist, 1)
                        e_ = _fc(ctx, "NumericValue", dict(kws_, value=dv))
                        hl = _fm(ctx, "NumericValue", "hex_len", {k_: x_ for k_, x_ in e_.items() if k_.startswith("self.")})
                        if hl != (2 if is_s else 4) and bad_w is None:
                            bad_w = (is_s, dist, hl)
                if bad_w:
                    c.finding(site + ":width", "no width given: a %s branch over %d bytes is rendered with %s hex digits" % ("short" if bad_w[0] else "long", bad_w[1], bad_w[2]),
                              "fix_addresses builds the displacement as `%s`, without size_hint: NumericValue then takes its width from the magnitude, so a %s branch whose distance is %d "
                              "is emitted with %s hex digits where the field has %d - the instruction is a byte short and everything behind it shifts"
                              % (U(call_)[:60], "short" if bad_w[0] else "long", bad_w[1], bad_w[2], 2 if bad_w[0] else 4), w)
                else:
                    c.ok(site + ":width", "the value's own width equals the field width for every distance of this arm", w)
                    c.undecided(site, "size-hint-not-constant", repr(hint), w)
                continue
            except Exception as e_:
                c.undecided(site, "size-hint-not-constant", "no size_hint; constructor not foldable: %s" % str(e_)[:60], w)
                continue
        if hint is None or hint.t:
            c.undecided(site, "size-hint-not-constant", repr(hint), w)
            continue
        mod = 16 ** hint.c
        want = A(Aff({"target": 1})) - A(Aff({"this": 1}, 1))
        diff = val - want
        okid = (not diff.t) and diff.c % mod == 0
        free = [k for k in diff.t if not k.startswith("A[")]
        cached = [ev.origins.get(k, k) for k in free if re.search(r"\b(Statement|cls|type\(self\)|self\.__class__)\.\w+\[", ev.origins.get(k, k))]
        if cached:
            c.finding(site + ":identity", "the distance is read from %s, a table kept on the class" % cached[0].split("[")[0],
                      "fix_addresses takes the branch distance from `%s`, state stored on the class and reused between calls (and between programs): it is right only while the "
                      "table still describes this statement list - lists that merely compare equal, or a list edited in place, get the distances of another layout" % cached[0], w)
        elif not free and diff.t and set(diff.t) == {"A[%r]" % (Aff({"this": 1}, 1),), "A[%r]" % (Aff({"this": 1}),)} \
                and diff.t["A[%r]" % (Aff({"this": 1}, 1),)] == -diff.t["A[%r]" % (Aff({"this": 1}),)]:
            # the branch's own length entered as a constant instead of its size: A[this+1] - A[this] is the size of this statement, known per row of the table
            k_own = diff.t["A[%r]" % (Aff({"this": 1}, 1),)]
            eff_rows, _ = ctx.effective_rows()
            wrong = []
            for m_, r_ in sorted(eff_rows.items(), key=lambda kv: str(kv[0])):
                if r_.flags["is_pseudo"] or r_.modes["rel"][0] is None or not isinstance(r_.modes["rel"][1], int):
                    continue
                if short is not None and short != bool(r_.flags["is_short_branch"]):
                    continue
                if (diff.c + k_own * r_.modes["rel"][1]) % mod != 0:
                    wrong.append((m_, r_.modes["rel"][1], diff.c + k_own * r_.modes["rel"][1]))
            if wrong:
                c.finding(site + ":identity", "the branch's own length is a constant that is wrong for %s" % ", ".join(w_[0] for w_ in wrong[:4]),
                          "fix_addresses emits %r for a %s %s branch, i.e. it counts the branch instruction itself as a fixed number of bytes: for %s (%d bytes long) the displacement is off by %d"
                          % (val, "short" if short else "long", direction, wrong[0][0], wrong[0][1], wrong[0][2]), w)
            else:
                c.ok(site + ":identity", "emitted = A[target] - A[this+1] for the length of every branch row", w)
        elif free:
            c.undecided(site + ":identity", "the emitted value depends on %s, which the evaluation could not express through statement addresses" % ", ".join(sorted(free)), repr(diff)[:100], w)
        else:
          c.check(okid, site + ":identity", "emitted = A[target] - A[this+1] (mod %#x)" % mod, "emitted - displacement = %r (mod %#x)" % (diff, mod),
                "fix_addresses emits %r for a %s %s branch; the displacement is A[target] - A[this+1], difference %r is not a multiple of %#x"
                % (val, "short" if short else "long", direction, diff, mod), w)
        if short is True:
            c.check(hint.c == 2, site + ":width", "8-bit field", "size_hint %s" % hint.c, "a short branch displacement is rendered with size_hint %s" % hint.c, w)
        elif short is False:
            c.check(hint.c == 4, site + ":width", "16-bit field", "size_hint %s" % hint.c, "a long branch displacement is rendered with size_hint %s" % hint.c, w)
        # side condition of every summarised slice: lower <= upper on this arm
        for a, b, lp in sides:
            d = a - b
            tt, ts = d.t.get("target", 0), d.t.get("this", 0)
            if set(d.t) - {"target", "this"} or tt != -ts:
                c.undecided(site + ":slice", "slice-bounds-not-a-function-of-target-this", repr(d), repo.loc(fn, lp))
                continue
            # d = tt*delta + c ; maximise over the delta interval
            if tt > 0:
                worst = None if hi is None else tt * hi + d.c
            elif tt < 0:
                worst = None if lo is None else tt * lo + d.c
            else:
                worst = d.c
            good = worst is not None and worst <= 0
            c.check(good, site + ":slice", "slice non-degenerate on this arm", "lower - upper can reach %s on this arm (delta in [%s, %s])" % (worst, lo, hi),
                    "the %s arm sums statements[%r:%r], but its guard allows target - this in [%s, %s], where the slice is empty/reversed and the sum is not A[upper]-A[lower] "
                    "(a branch to its own label would be computed as a branch to the next instruction)" % (direction, a, b, lo, hi), repo.loc(fn, lp))
        # REL-2: range guard for short branches
        if short is True:
            gfound = None
            for g in guards:
                t = g.test
                parts = t.values if isinstance(t, ast.BoolOp) and isinstance(t.op, ast.And) else [t]
                cmpn = [p for p in parts if isinstance(p, ast.Compare) and len(p.ops) == 1]
                others = [U(p) for p in parts if not isinstance(p, ast.Compare)]
                if cmpn and all(o in short_atoms for o in others):
                    gfound = (g, cmpn[0])
            if gfound is None:
                c.finding(site + ":range", "no range check dominates the short-branch emission",
                          "fix_addresses emits a %s short-branch displacement with no check that it fits -128..+127" % direction, w)
                continue
            g, cp = gfound
            k = try_fold(cp.comparators[0], ctx.env)
            op = type(cp.ops[0]).__name__
            # length variable value at the guard (the guard sits after the loop): recompute from the identity: val = base -/+ length
            lv = U(cp.left)
            # find the Aff of the guarded variable by re-evaluating up to the guard
            ev2 = BranchEval(this_name, target_name)
            env2 = {this_name: Aff({"this": 1}), target_name: Aff({"target": 1})}
            gval = _value_at(ev2, stm, env2, conds, g, lv if isinstance(cp.left, ast.Name) else cp.left)
            if gval is not None and set(gval.t) & SIZEVARS:
                # the branch's own size enters the guard: every short branch row has the same size, read from the table
                eff_rows_, _ = ctx.effective_rows()
                szs = {r_.modes["rel"][1] for r_ in eff_rows_.values() if not r_.flags["is_pseudo"] and r_.modes["rel"][0] is not None and r_.flags["is_short_branch"]}
                if len(szs) == 1:
                    sz_ = szs.pop()
                    gval = Aff({k_: v_ for k_, v_ in gval.t.items() if k_ not in SIZEVARS}, gval.c + sum(v_ * sz_ for k_, v_ in gval.t.items() if k_ in SIZEVARS))
            if gval is None or not isinstance(k, int) or op not in ("Gt", "GtE"):
                c.undecided(site + ":range", "guard-not-evaluable", U(g.test), repo.loc(fn, g))
                continue
            kk = k if op == "Gt" else k - 1          # accepted iff guarded <= kk
            D = want
            # guarded = c0 + s * D
            rest = gval - D
            rest2 = gval + D
            if not rest.t:
                s_, c0 = 1, rest.c
            elif not rest2.t:
                s_, c0 = -1, rest2.c
            else:
                c.undecided(site + ":range", "guarded-quantity-not-a-function-of-the-displacement", repr(gval), repo.loc(fn, g))
                continue
            if s_ == 1:
                dmax = kk - c0
                good = dmax == 127
                fact_bad = "accepts displacements up to %+d" % dmax
            else:
                dmin = c0 - kk
                good = dmin == -128
                fact_bad = "accepts displacements down to %+d" % dmin
            c.check(good, site + ":range", "rejects exactly the displacements outside -128..+127", fact_bad + " (8-bit field: -128..+127)",
                    "the %s short-branch range check `%s` %s; the field holds -128..+127" % (direction, U(g.test), fact_bad), repo.loc(fn, g))
    # REL-6: RelativeOperand.translate passes NoneValue when the operand is not a plain label
    ro = repo.method("RelativeOperand", "translate", inherited=False)
    txt = U(ro.node)
    if re.search(r"additional=self\.value if self\.value\.is_address\(\) else NoneValue\(\)", txt) and not any(isinstance(n, ast.Raise) for n in ast.walk(ro.node)):
        c.finding("RelativeOperand.translate", "non-label operand becomes NoneValue, read as statement index 0",
                  "RelativeOperand.translate replaces any operand that is not a plain label (BRA L+1, BRA $1234) by NoneValue(); fix_addresses then reads .int (0) as the target statement index",
                  repo.loc(ro, ro.node))
    else:
        c.ok("RelativeOperand.translate", "no silent NoneValue target", repo.loc(ro, ro.node))


def _value_at(ev, stmts, env, conds, guard, var):
    """Aff of `var` when control reaches `guard` on the arm described by conds"""
    cd = dict(conds)
    result = [None]

    def run(stmts, env):
        for k, s in enumerate(stmts):
            if s is guard:
                if isinstance(var, ast.AST):
                    try:
                        result[0] = idx(var, env)
                    except NotAffine:
                        result[0] = None
                else:
                    result[0] = env.get(var)
                return True
            if isinstance(s, ast.Assign) and len(s.targets) == 1:
                t = U(s.targets[0])
                v = s.value
                if isinstance(v, ast.IfExp):
                    truth = cd.get(U(v.test))
                    if truth is None:
                        env[t] = Aff({t: 1})
                    else:
                        try:
                            env[t] = idx(v.body if truth else v.orelse, env)
                        except NotAffine:
                            env[t] = Aff({t: 1})
                    continue
                try:
                    env[t] = idx(v, env)
                except NotAffine:
                    env[t] = Aff({t: 1})
            elif isinstance(s, ast.For) and isinstance(s.iter, ast.Subscript) and isinstance(s.iter.slice, ast.Slice):
                try:
                    a = idx(s.iter.slice.lower, env) if s.iter.slice.lower else Aff(c=0)
                    b = idx(s.iter.slice.upper, env)
                except NotAffine:
                    continue
                body = s.body[0] if len(s.body) == 1 else None
                if isinstance(body, ast.AugAssign):
                    acc = U(body.target)
                    env[acc] = env.get(acc, Aff({acc: 1})) + A(b) - A(a)
            elif isinstance(s, ast.If):
                if s.body and isinstance(s.body[-1], ast.Raise) and not s.orelse:
                    continue
                truth = cd.get(U(s.test))
                if truth is None:
                    return False
                if run((s.body if truth else s.orelse) + stmts[k + 1:], env):
                    return True
                return False
        return False
    run(stmts, dict(env))
    return result[0]


def rel3(ctx, c):
    """REL-3 PC-relative sizing arms, windows, thresholds, margins; REL-4 sibling predicates; TERM-1 progress."""
    repo = ctx.repo
    fn = repo.method(ST, "determine_pcr_relative_sizes")
    where = repo.loc(fn, fn.node)
    params = [p for p in fn.params if p != "self"]
    this_name = params[1]
    from ..inline import flatten
    flat = flatten(repo, fn, depth=2)
    try:
        outs = Interp(flat, consts=ctx.env).run()
    except PathCap as e:
        c.undecided("determine_pcr_relative_sizes", "path-cap", str(e), where)
        return
    n = 0
    seen = set()
    unfixed = []
    for o in outs:
        if o.kind == "raise":
            continue
        env = o.path.env
        n += 1
        rng = env.get("range_count")
        m = re.fullmatch(r"range\((.+), (.+)\)", strip_ver(rng.text)) if isinstance(rng, Opq) else None
        fixed = env.get("self.fixed_size")
        if not (isinstance(fixed, Const) and fixed.v is True):
            unfixed.append(o)
        hint = env.get("self.pcr_size_hint")
        if not isinstance(hint, Const):
            continue
        if m is None:
            c.undecided("determine_pcr_relative_sizes:window", "window-not-a-range", repr(rng), where)
            continue
        lo_t, hi_t = m.group(1), m.group(2)
        rel_var = None
        for t in (lo_t, hi_t):
            mm = re.fullmatch(r"(\w+)( [+-] \d+)?", t)
            if mm and mm.group(1) != this_name:
                rel_var = mm.group(1)
        backward = lo_t.startswith(rel_var or "\0")
        direction = "backward" if backward else "forward"
        # window as offsets relative to (this, rel)
        def off(t, base):
            mm = re.fullmatch(r"%s(?: ([+-]) (\d+))?" % re.escape(base), t)
            return (int(mm.group(2) or 0) * (-1 if mm.group(1) == "-" else 1)) if mm else None
        if backward:
            w_lo, w_hi = off(lo_t, rel_var), off(hi_t, this_name)      # [rel + w_lo, this + w_hi)
        else:
            w_lo, w_hi = off(lo_t, this_name), off(hi_t, rel_var)      # [this + w_lo, rel + w_hi)
        looped = dict(o.path.conds).get(next((a for a, _ in o.path.conds if a.startswith("loop:")), ""), False)
        if not looped:
            continue
        # accumulators
        maxv = next((k for k, v in env.items() if isinstance(v, Lin) and any(s.endswith(".code_pkg.max_size") and "statements[" in s for s in v.terms)), None)
        minv = next((k for k, v in env.items() if isinstance(v, Lin) and any(s.endswith(".code_pkg.size") and "statements[" in s for s in v.terms)), None)
        arm = "8-bit" if hint.v == 2 else ("16-bit" if hint.v == 4 else "hint%s" % hint.v)
        site = "determine_pcr_relative_sizes:%s/%s" % (direction, arm)
        # arm tuple: size increment, max_size = size, choice index
        sz = env.get("self.code_pkg.size")
        mx = env.get("self.code_pkg.max_size")
        inc = sz.c if isinstance(sz, Lin) and sz.terms == {"self.code_pkg.size": 1} else None
        pb = env.get("raw_post_byte")
        choice = None
        if isinstance(pb, Bits):
            for oq in pb.opaque:
                mm = re.search(r"post_byte_choices\[(\d+)\]", repr(oq))
                if mm:
                    choice = int(mm.group(1))
        key = (site, inc, repr(mx) == repr(sz), choice)
        if key not in seen:
            seen.add(key)
            want = (1, 0) if hint.v == 2 else (2, 1)
            good = inc == want[0] and repr(mx) == repr(sz) and choice == want[1]
            if inc is None or choice is None:
                c.undecided(site + ":arm", "arm-effects-not-recognised", "size %r, post byte %r" % (sz, pb), where)
            else:
              c.check(good, site + ":arm", "size+%d, max_size=size, choice[%d], hint %d" % (want[0], want[1], hint.v),
                    "size+%s, max_size=%s, choice[%s], hint %s" % (inc, "size" if repr(mx) == repr(sz) else repr(mx), choice, hint.v),
                    "the %s %s arm sets size+%s, max_size %s, post-byte choice %s with pcr_size_hint %s; an %s offset needs size+%d, max_size=size, choice[%d]"
                    % (direction, arm, inc, repr(mx), choice, hint.v, arm, want[0], want[1]), where)
        if hint.v != 2:
            continue
        # thresholds on the 8-bit arm
        thr = {}
        penv = dict(ctx.env)
        penv.update({k_: v_.v for k_, v_ in env.items() if isinstance(v_, Const) and isinstance(v_.v, int)})
        unread = []
        for a, t in o.path.conds:
            try:
                node_ = ast.parse(strip_ver(a), mode="eval").body
            except SyntaxError:
                continue
            if not (isinstance(node_, ast.Compare) and len(node_.ops) == 1 and isinstance(node_.ops[0], (ast.Lt, ast.LtE, ast.Gt, ast.GtE))):
                continue
            l_, r_, op_ = node_.left, node_.comparators[0], node_.ops[0]
            if isinstance(op_, (ast.Gt, ast.GtE)):
                # a > K false  ==  a <= K
                if t:
                    continue
                op_ = ast.LtE() if isinstance(op_, ast.Gt) else ast.Lt()
            elif not t:
                continue
            k = try_fold(r_, penv)
            names_ = [l_.id] if isinstance(l_, ast.Name) else ([x.id for x in l_.args] if isinstance(l_, ast.Call) and U(l_.func) == "max" and all(isinstance(x, ast.Name) for x in l_.args) else None)
            if isinstance(k, int) and names_:
                for nm_ in names_:
                    thr[nm_] = k if isinstance(op_, ast.LtE) else k - 1
            elif any(isinstance(x, ast.Name) and x.id in (maxv, minv) for x in ast.walk(node_)):
                unread.append(strip_ver(a))
        limit = 128 if backward else 127
        key = (site, "thr", tuple(sorted(thr.items())), maxv, minv)
        if key in seen:
            continue
        seen.add(key)
        if maxv is None:
            c.finding(site + ":estimate", "no accumulator sums max_size over the window",
                      "the %s 8-bit decision is not based on an upper estimate (no variable accumulates statements[x].code_pkg.max_size): "
                      "unsized statements in between may still grow and push the offset out of 8 bits" % direction, where)
            continue
        if maxv not in thr and unread:
            c.undecided(site + ":estimate", "test-on-the-estimate-not-read", unread[0][:80], where)
            continue
        if maxv not in thr:
            c.finding(site + ":estimate", "the upper estimate is not tested on the 8-bit arm (tests: %s)" % sorted(thr),
                      "the %s 8-bit arm is taken without testing the upper estimate %s against the 8-bit limit" % (direction, maxv), where)
            continue
        c.check(thr[maxv] <= limit, site + ":threshold", "upper estimate <= %d" % limit, "upper estimate may reach %d (8-bit limit %d)" % (thr[maxv], limit),
                "the %s 8-bit arm accepts an upper estimate of %d; an 8-bit offset reaches %s%d" % (direction, thr[maxv], "-" if backward else "+", limit), where)
        # margin: estimate - |true displacement| >= 0
        cst = env[maxv].c
        if w_lo is None or w_hi is None:
            c.undecided(site + ":margin", "window-bounds-not-affine", "%s..%s" % (lo_t, hi_t), where)
            continue
        if not backward:
            # needed: statements this+1 .. rel-1 ; window this+w_lo .. rel+w_hi-1
            covers = w_lo <= 1 and w_hi >= 0
            margin = cst + (0 if w_lo > 0 else 0)
            good = covers and margin >= 0
            c.check(good, site + ":margin", "window [this%+d, rel%+d) + %d covers the displacement" % (w_lo, w_hi, cst),
                    "window [this%+d, rel%+d) + %d" % (w_lo, w_hi, cst),
                    "the forward estimate sums statements [this%+d, rel%+d) plus %d; the displacement spans statements this+1 .. rel-1" % (w_lo, w_hi, cst), where)
        else:
            # needed: statements rel .. this-1 plus this statement's final size (ind_sz + 1 for the 8-bit form)
            if w_hi > 1:
                c.finding(site + ":window-end", "the window runs to statement this%+d" % (w_hi - 1),
                          "the backward estimate reads statements up to this%+d: when the PC-relative statement is the last one of the program that statement does not exist and a valid "
                          "program is rejected with an index error" % (w_hi - 1), where)
            covers = w_lo <= 0 and w_hi >= 0
            includes_self = w_hi >= 1
            # with self in the window its max_size (ind_sz + 2) is counted: margin = cst + 1; without: margin = cst - (ind_sz + 1) <= cst - 3
            margin = cst + 1 if includes_self else cst - 3
            good = covers and margin >= 0
            c.check(good, site + ":margin", "window [rel%+d, this%+d) + %d covers the displacement incl. the instruction itself" % (w_lo, w_hi, cst),
                    "window [rel%+d, this%+d) + %d: margin %d" % (w_lo, w_hi, cst, margin),
                    "the backward estimate sums statements [rel%+d, this%+d) plus %d, but the displacement is measured from the END of this instruction "
                    "(ind_sz + 1 bytes, i.e. 3 or 4): the estimate can be %d byte(s) too small and the 8-bit form chosen for -129/-130"
                    % (w_lo, w_hi, cst, -margin), where)
    from ..model import one_shot_reuse
    for nm_, b_, uses_ in one_shot_reuse(fn.node):
        c.finding("determine_pcr_relative_sizes:one-shot", "`%s` is a one-shot iterator consumed %d times" % (nm_, len(uses_)),
                  "determine_pcr_relative_sizes binds `%s = %s` and reads it at %d places: the first consumer exhausts it and the later sums see nothing, so the estimate they "
                  "accumulate is too small and the 8-bit form can be chosen for a displacement that needs 16" % (nm_, U(b_.value)[:50], len(uses_)), repo.loc(fn, b_))
    c.floor("determine_pcr_relative_sizes paths", n, 4)
    # TERM-1 (shared): every normal exit has fixed the size
    if unfixed:
        o = unfixed[0]
        c.finding("determine_pcr_relative_sizes:progress", "a path returns without fixing the size",
                  "determine_pcr_relative_sizes can return without setting fixed_size (conditions %s): if every remaining statement takes such a path the sizing loop never ends"
                  % [("%s=%s" % (strip_ver(a), t)) for a, t in o.path.conds][:6], where)
    else:
        c.ok("determine_pcr_relative_sizes:progress", "fixed_size = True on every path", where)
    # REL-4 sibling predicates on address expressions
    sites = []
    for n_ in ast.walk(fn.node):
        if isinstance(n_, ast.If):
            calls = [U(x.func) for x in ast.walk(n_) if isinstance(x, ast.Call)]
            if any(x.endswith("extract_address_index_from_expression") for x in calls):
                sites.append(("determine_pcr_relative_sizes", U(n_.test), n_))
    fa = repo.method(ST, "fix_addresses")
    for n_ in ast.walk(fa.node):
        if isinstance(n_, ast.If) and any(U(x.func).endswith("left.calculate_address_offset") for x in ast.walk(n_) if isinstance(x, ast.Call)) \
                and "additional_needs_resolution" not in U(n_.test):
            sites.append(("fix_addresses", U(n_.test), n_))
    for name, test, node in sites:
        good = ".is_address_expression()" in test
        f = fn if name.startswith("determine") else fa
        c.check(good, "%s:address-expression-predicate" % name, "guarded by left.is_address_expression()", "guarded by %s" % test,
                "%s takes the label index out of an expression operand under `%s`; expressions containing a label are tagged ADDRESS_EXPRESSION by resolve(), "
                "so any other predicate sends label+n,PCR through the plain-label path (target read as statement 0)" % (name, test), repo.loc(f, node))
    for n_ in ast.walk(fn.node):
        if isinstance(n_, ast.If) and ".is_address_expression()" in U(n_.test) and all(isinstance(b_, ast.Pass) or (isinstance(b_, ast.Expr) and isinstance(b_.value, ast.Constant)) for b_ in n_.body) \
                and not n_.orelse:
            c.finding("determine_pcr_relative_sizes:address-expression-branch", "the label+n branch does nothing",
                      "determine_pcr_relative_sizes tests for a label+n operand and then takes no index from it: the span is measured to statement %s instead of the label's statement, "
                      "so the 8/16-bit decision for label+n,PCR is made on an unrelated distance" % "self.code_pkg.additional.int (0 for an expression)", repo.loc(fn, n_))
    if len(sites) < 2:
        c.undecided("address-expression-predicate", "sites-not-found", str([s[0] for s in sites]), where)
    ex = repo.method("ExpressionValue", "extract_address_index_from_expression", inherited=False)
    rets = [n.value for n in ast.walk(ex.node) if isinstance(n, ast.Return) and n.value is not None]
    if len(rets) == 1 and isinstance(rets[0], ast.IfExp):
        r = rets[0]
        m = re.fullmatch(r"self\.(left|right)\.(\w+)\(\)", U(r.test))
        if m:
            side, pred = m.groups()
            other = "right" if side == "left" else "left"
            good = pred == "is_address" and U(r.body) == "self.%s.int" % side and U(r.orelse) == "self.%s.int" % other
            c.check(good, "extract_address_index_from_expression", "index of the operand that is the label", "returns %s" % U(r),
                    "extract_address_index_from_expression returns `%s`: the statement index must come from the operand that is an address, the other operand is the constant" % U(r), repo.loc(ex, ex.node))
        else:
            c.undecided("extract_address_index_from_expression", "shape-unknown", U(r), repo.loc(ex, ex.node))
    else:
        c.undecided("extract_address_index_from_expression", "shape-unknown", "", repo.loc(ex, ex.node))


def rel5(ctx, c):
    """REL-5 PCR displacement: target address - (address of this statement + its size), rendered at pcr_size_hint."""
    repo = ctx.repo
    fn = repo.method(ST, "fix_addresses")
    where = repo.loc(fn, fn.node)
    body = body_without_doc(fn.node)
    anr = next((s for s in body if isinstance(s, ast.If) and "additional_needs_resolution" in U(s.test)), None)
    params = [p for p in fn.params if p != "self"]
    if anr is None:
        # the arm is not a top-level `if` of this method (guard clause, helper method): interpret the method with its helpers and keep the
        # paths on which the flag is true
        from ..inline import flatten
        try:
            outs = Interp(flatten(repo, fn, depth=2), consts=ctx.env, alias_paths=True).run()
        except PathCap as e:
            c.undecided("fix_addresses:pcr", "path-cap", str(e), where)
            return
        outs = [o for o in outs if o.kind in ("fall", "return") and not o.path.unk
                and any(strip_ver(a).endswith("code_pkg.additional_needs_resolution") and t for a, t in o.path.conds)]
        if not outs:
            c.undecided("fix_addresses:pcr", "the additional_needs_resolution arm was not located", "", where)
            return
    else:
        tmp = ast.parse("def f(self, %s):\n    pass" % ", ".join(params)).body[0]
        tmp.body = anr.body
        outs = [o for o in Interp(tmp, consts=ctx.env).run() if o.kind == "fall"]
    n = 0
    for o in outs:
        n += 1
        add = o.path.env.get("self.code_pkg.additional")
        ja = None
        if isinstance(add, Ctor) and add.cls in ("NumericValue", "call:NumericValue"):
            ja = add.args[0] if add.args else None
            hint = add.kw.get("size_hint")
        expr_arm = any("is_address_expression()" in a and ".left" in a and t for a, t in o.path.conds)
        site = "fix_addresses:pcr/%s" % ("label+n" if expr_arm else "label")
        if not isinstance(ja, Lin):
            c.undecided(site, "jump-amount-not-affine", repr(add)[:80], where)
            continue
        terms = {strip_ver(k): v for k, v in ja.terms.items()}
        start = "statements[%s].code_pkg.address.int" % params[1]
        tgt = [k for k in terms if k not in (start, "self.code_pkg.size")]
        good = terms.get(start) == -1 and terms.get("self.code_pkg.size") == -1 and ja.c == 0 and len(tgt) == 1 and terms[tgt[0]] == 1
        if expr_arm:
            good = good and "calculate_address_offset" in tgt[0] if tgt else False
        else:
            good = good and tgt and re.fullmatch(r"statements\[self\.code_pkg\.additional\.int\]\.code_pkg\.address\.int", tgt[0]) is not None
        c.check(bool(good), site, "offset = target address - (own address + own size)", "offset = %r" % ja,
                "the PC-relative offset is computed as %r; it is (address of the target) - (address of this statement) - (size of this statement)" % ja, where)
        h = o.path.env.get("self.code_pkg.additional")
        ht = repr(add.kw.get("size_hint")) if isinstance(add, Ctor) else ""
        c.check("pcr_size_hint" in ht, site + ":width", "rendered at pcr_size_hint", "size_hint = %s" % ht,
                "the PC-relative offset is rendered with size_hint %s, not with the width chosen by determine_pcr_relative_sizes" % ht, where)
    c.floor("PCR fix-up paths", n, 2)


RULES = {"REL-1": rel1, "REL-3": rel3, "REL-5": rel5}
