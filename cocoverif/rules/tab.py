"""TAB rules: the instruction table against the MC6809 reference, availability tests, mode pairing."""
import ast

from ..model import U, body_without_doc, AnalysisError
from ..context import MODES, OPERAND_CLASS_MODE
from ..refs import mc6809


def _h(v):
    return "None" if v is None else ("%#x" % v if isinstance(v, int) and not isinstance(v, bool) else repr(v))


def tab1(ctx, c):
    """TAB-1 opcode/size/flag conformance of every row with the datasheet map."""
    rows, unfolded, mod = ctx.instructions()
    eff, dups = ctx.effective_rows()
    ref = mc6809.opcode_map()
    cpu_rows = [r for r in rows if not r.flags["is_pseudo"]]
    c.floor("Instruction rows", len(cpu_rows), 100)
    for idx, text, why in unfolded:
        c.undecided("INSTRUCTIONS[%d]" % idx, "row-not-foldable", "%s (%s)" % (text, why), mod.rel)
    sb, lb = mc6809.short_branches(), mc6809.long_branches()
    for m, r in sorted(eff.items(), key=lambda kv: str(kv[0])):
        if r.flags["is_pseudo"]:
            continue
        where = "%s:%d" % (mod.rel, r.node.lineno)
        if m not in ref:
            c.undecided("row:%s" % m, "mnemonic-unknown-to-reference", "row %s is not an MC6809 mnemonic known to the reference" % m, where)
            continue
        for md in MODES:
            op, sz = r.modes[md]
            want = ref[m].get(md)
            site = "cell:%s.%s" % (m, md)
            if want is None:
                c.check(op is None, site, "absent", "opcode=%s where the CPU has no such mode" % _h(op),
                        "%s has no %s addressing on the MC6809 but the table gives opcode %s" % (m, md, _h(op)), where)
            else:
                c.check((op, sz) == want, site, "%s/%d" % (_h(op), want[1]),
                        "opcode=%s,size=%s (datasheet %s,%d)" % (_h(op), sz, _h(want[0]), want[1]),
                        "%s %s: table has opcode %s size %s, datasheet opcode %s size %d" % (m, md, _h(op), sz, _h(want[0]), want[1]), where)
        has_imm = "imm" in ref[m]
        exp = {
            "is_short_branch": m in sb, "is_long_branch": m in lb, "is_special": m in mc6809.SPECIAL,
            "is_pseudo_define": False, "is_string_define": False, "is_include": False, "is_origin": False, "is_name": False,
            "is_multi_byte": False, "is_multi_word": False,
        }
        # the flag widens EVERY literal of the statement to 16 bits (Value.create_from_str), constant index offsets included: it belongs to the
        # instructions with a 16-bit immediate and to no other
        exp["is_16_bit"] = m in mc6809.IMM16
        for fl, want in exp.items():
            c.check(r.flags[fl] == want, "flag:%s.%s" % (m, fl), str(want), "%s=%s (reference %s)" % (fl, r.flags[fl], want),
                    "%s: flag %s is %s, the MC6809 reference implies %s" % (m, fl, r.flags[fl], want), where)
    # the directive rows: each role flag belongs to one directive (the passes look the flags up, not the mnemonics)
    PSEUDO_FLAGS = {"is_origin": {"ORG"}, "is_name": {"NAM"}, "is_pseudo_define": {"EQU"}, "is_include": {"INCLUDE"}, "is_string_define": {"FCC"},
                    "is_multi_byte": {"FCB"}, "is_multi_word": {"FDB"}}
    for r in rows:
        if not r.flags["is_pseudo"]:
            continue
        for fl, owners in PSEUDO_FLAGS.items():
            want = r.mnemonic in owners
            if fl in r.flags:
                c.check(bool(r.flags[fl]) == want, "flag:%s.%s" % (r.mnemonic, fl), str(want), "%s=%s (reference %s)" % (fl, r.flags[fl], want),
                        "%s: flag %s is %s; the only directive with that role is %s (is_origin makes the final scan take the statement's address for the program's load address, "
                        "is_name its operand for the file name ...)" % (r.mnemonic, fl, r.flags[fl], "/".join(sorted(owners))), "%s:%d" % (mod.rel, r.node.lineno))
    for m in sorted(ref):
        if m not in eff:
            c.finding("row:%s" % m, "mnemonic-missing", "MC6809 mnemonic %s has no row in INSTRUCTIONS" % m, mod.rel)
        else:
            c.ok("row:%s" % m, "present", nontrivial=False)
    for r in dups:
        first = eff[r.mnemonic]
        same = first.modes == r.modes and first.flags == r.flags
        c.note("duplicate row %s (%s the first; unreachable through next())" % (r.mnemonic, "identical to" if same else "DIFFERS from"))


def tab2(ctx, c):
    """TAB-2 row arithmetic: size = len(opcode) + operand bytes of the mode."""
    rows, _, mod = ctx.instructions()
    n = 0
    for r in rows:
        if r.flags["is_pseudo"]:
            continue
        where = "%s:%d" % (mod.rel, r.node.lineno)
        for md in MODES:
            op, sz = r.modes[md]
            if op is None:
                continue
            n += 1
            if not isinstance(op, int) or not isinstance(sz, int):
                c.undecided("cell:%s.%s" % (r.mnemonic, md), "non-integer cell", where=where)
                continue
            if md == "imm":
                ob = 2 if r.flags["is_16_bit"] else 1
            elif md == "rel":
                ob = 1 if r.flags["is_short_branch"] else 2
            else:
                ob = {"inh": 0, "dir": 1, "ext": 2, "ind": 1}[md]
            want = mc6809.oplen(op) + ob
            c.check(sz == want, "cell:%s.%s" % (r.mnemonic, md), "size=%d" % want, "size=%s, opcode %s + %d operand byte(s) = %d" % (sz, _h(op), ob, want),
                    "%s %s: table size %s but opcode %s plus %d operand byte(s) is %d" % (r.mnemonic, md, sz, _h(op), ob, want), where)
    c.floor("non-empty cells", n, 200)


def _mode_attrs(node):
    """all self.instruction.mode.<x> reads below node -> list of (x, attribute node)"""
    out = []
    for n in ast.walk(node):
        if isinstance(n, ast.Attribute) and isinstance(n.value, ast.Attribute) and n.value.attr == "mode" \
                and U(n.value) .endswith("instruction.mode"):
            out.append((n.attr, n))
    return out


def _is_raise_block(stmts):
    return bool(stmts) and isinstance(stmts[-1], ast.Raise)


def tab3(ctx, c):
    """TAB-3 availability tests: each CPU operand class rejects an instruction lacking its mode, and a
    truthiness test is only sound if no opcode of that column is 0."""
    repo = ctx.repo
    eff, _ = ctx.effective_rows()
    found = 0
    for cls, md in OPERAND_CLASS_MODE.items():
        if cls in ("RelativeOperand", "SpecialOperand"):
            continue
        fn = repo.method(cls, "translate", inherited=False)
        where = repo.loc(fn, fn.node)
        site = "%s.translate" % cls
        guard = None
        for st in body_without_doc(fn.node):
            if isinstance(st, ast.Return):
                break
            if isinstance(st, ast.If) and _is_raise_block(st.body) and not st.orelse and any(a == md for a, _ in _mode_attrs(st.test)):
                guard = st
                break
        if guard is None:
            # a helper call or another shape guards it?  only a finding when no conditional raise exists at all
            any_cond_raise = any(isinstance(n, ast.Raise) for n in ast.walk(fn.node))
            calls = [U(n.func) for n in ast.walk(fn.node) if isinstance(n, ast.Call)]
            helper = [x for x in calls if "mode" in x.lower() or "support" in x.lower() or "check" in x.lower() or "valid" in x.lower()]
            if helper or any_cond_raise and not any(a == md for a, _ in _mode_attrs(fn.node)):
                c.undecided(site, "availability-test-shape-unknown", "no top-level `if <mode.%s test>: raise` found; helper calls %s" % (md, helper), where)
            else:
                c.finding(site, "no-availability-test(%s)" % md,
                          "%s.translate() encodes with mode.%s without first rejecting instructions that lack that mode "
                          "(a missing mode would be emitted as opcode None/garbage instead of a diagnostic)" % (cls, md), where)
            continue
        found += 1
        t = guard.test
        kind = None
        if isinstance(t, ast.UnaryOp) and isinstance(t.op, ast.Not) and isinstance(t.operand, ast.Attribute):
            kind = "truthiness"
        elif isinstance(t, ast.Compare) and len(t.ops) == 1 and isinstance(t.ops[0], ast.Is) and U(t.comparators[0]) == "None":
            kind = "is-none"
        elif isinstance(t, ast.Compare) and len(t.ops) == 1 and isinstance(t.ops[0], ast.Eq) and U(t.comparators[0]) == "None":
            kind = "is-none"
        if kind is None:
            c.undecided(site, "availability-test-form-unknown", U(t), repo.loc(fn, guard))
            continue
        if kind == "is-none":
            c.ok(site, "is-none(%s)" % md, repo.loc(fn, guard))
            continue
        zero = sorted(m for m, r in eff.items() if not r.flags["is_pseudo"] and r.modes[md][0] == 0)
        c.check(not zero, site, "truthiness(%s),column-has-no-zero" % md, "truthiness(%s),column-contains-0x00:%s" % (md, ",".join(zero)),
                "%s.translate() tests `not mode.%s`, but %s has opcode 0x00 in that column and is rejected as unsupported" % (cls, md, ",".join(zero)),
                repo.loc(fn, guard))
    c.floor("availability tests", found, 4)


def tab4(ctx, c):
    """TAB-4 mode pairing: every operand class reads only the table column it stands for."""
    repo = ctx.repo
    n = 0
    for cls, md in OPERAND_CLASS_MODE.items():
        fn = repo.method(cls, "translate", inherited=False)
        attrs = _mode_attrs(fn.node)
        n += len(attrs)
        bad = sorted({a for a, _ in attrs if a not in (md, md + "_sz")})
        used = {a for a, _ in attrs}
        site = "%s.translate" % cls
        where = repo.loc(fn, fn.node)
        if bad:
            c.finding(site, "reads:%s(expected %s)" % (",".join(bad), md),
                      "%s.translate() reads table column(s) %s but stands for mode %s" % (cls, ",".join(bad), md), where)
        elif md not in used or md + "_sz" not in used:
            c.undecided(site, "column-not-read-directly", "reads %s" % sorted(used), where)
        else:
            c.ok(site, "reads:%s,%s_sz" % (md, md), where)
        # op_code keyword of every CodePackage must be NumericValue(mode.<md>) and size must derive from <md>_sz
        for call in ast.walk(fn.node):
            if isinstance(call, ast.Call) and U(call.func) == "CodePackage":
                kw = {k.arg: k.value for k in call.keywords if k.arg}
                if "op_code" in kw:
                    a = [x for x, _ in _mode_attrs(kw["op_code"])]
                    if not a:
                        # the opcode goes through a local: follow one assignment
                        nm = [x.id for x in ast.walk(kw["op_code"]) if isinstance(x, ast.Name) and x.id not in ("NumericValue",)]
                        for st in ast.walk(fn.node):
                            if isinstance(st, ast.Assign) and nm and U(st.targets[0]) == nm[0]:
                                a = [x for x, _ in _mode_attrs(st.value)]
                    if not a:
                        c.undecided(site + ":op_code", "opcode-source-not-recognised", U(kw["op_code"]), repo.loc(fn, call))
                        continue
                    c.check(a == [md], site + ":op_code", "mode.%s" % md, "op_code from %s" % (a or U(kw["op_code"])),
                            "%s.translate() builds the opcode from %s instead of mode.%s" % (cls, a or U(kw["op_code"]), md), repo.loc(fn, call))
    c.floor("mode attribute reads", n, 16)


RULES = {"TAB-1": tab1, "TAB-2": tab2, "TAB-3": tab3, "TAB-4": tab4}
