"""ESC (exception escape) and TERM (termination) rules for Program.process."""
import ast
import re

from ..model import U, body_without_doc, AnalysisError
from ..callgraph import CallGraph
from ..cfg import CFG
from ..consteval import try_fold

ALLOWED = {"ParseError", "TranslationError"}

# may-results of the escape fixpoint that were triaged by reading: exact key -> reason (no failing input exists)
TRIAGED = {
    "ValueTypeError via Statement.determine_pcr_relative_sizes":
        "the only NumericValue built there is NumericValue(raw_post_byte) with a post-byte below 256; the call is wrapped by translate_statements anyway",
}

# call cycles reachable from Program.process that were triaged by reading: function -> decreasing argument
CYCLES_TRIAGED = {
    "Value.create_from_str": "ExpressionValue.__init__ re-enters with match.group('left'/'right'), which `[$]*\\w+` guarantees to contain no operator: depth <= 2",
    "ExpressionValue.__init__": "see Value.create_from_str",
    "ExpressionValue.hex_len": "delegates to the resolved value object, a different (non-expression) Value: depth <= 2",
    "SymbolValue.hex_len": "delegates to the stored value object: depth <= 2",
    "ExpressionValue.hex": "delegates to the resolved value object: depth <= 2",
    "SymbolValue.hex": "delegates to the stored value object: depth <= 2",
}


def _cg(ctx):
    return ctx.memo("callgraph", lambda: CallGraph(ctx.repo))


def esc1(ctx, c):
    """ESC-1 explicit raises escaping Program.process; wrapper totality at every phase; ESC-4 diagnostics carry the statement."""
    repo = ctx.repo
    cg = _cg(ctx)
    esc = cg.escapes()
    for u in sorted(cg.unresolved):
        c.note("call resolved by method name only: %s in %s" % (u[1], u[0]))
    entry = "Program.process"
    if entry not in esc:
        raise AnalysisError("ESC-1: anchor Program.process not found")
    # phases: direct call sites of process and translate_statements
    phases = []
    for q in ("Program.process", "Program.translate_statements"):
        for kind, what, stack, node in cg.sites.get(q, []):
            if kind in ("call", "call?") and what not in ("Program.translate_statements",):
                phases.append((q, what, stack, node, kind == "call?"))
    c.floor("phase call sites", len(phases), 8)
    seen = set()
    for q, what, stack, node, weak_site in phases:
        for exc, origin in sorted(esc.get(what, ())):
            if exc in ALLOWED:
                continue
            if any(cg.catches(h, exc) for h in stack):
                continue
            key = "%s via %s" % (exc, what)
            if key in seen:
                continue
            seen.add(key)
            f = cg.funcs[q]
            if key in TRIAGED:
                c.ok(entry, "triaged may-result: %s (%s)" % (key, TRIAGED[key]), repo.loc(f, node))
                continue
            if weak_site or (exc, origin) in cg.weak.get(what, ()):
                c.undecided(entry, key + " (through a call resolved by method name only)", "receiver type not established: %s" % U(node.func), repo.loc(f, node))
                continue
            c.finding(entry, key, "%s raised at %s can leave Program.process through %s: the command line catches only ParseError and TranslationError, so it surfaces as a traceback"
                      % (exc, origin, what), repo.loc(f, node))
        if (what, "ok") not in seen:
            seen.add((what, "ok"))
            c.ok("%s:%s" % (entry, what), "explicit raises escaping this phase: %s" % sorted({e for e, _ in esc.get(what, ())}), nontrivial=True)
    # the command line: whatever a call made by assembler.main can raise explicitly is caught where the call is made
    for mq in [q for q in cg.sites if q.endswith(":main") and q.split(":")[0] in ("assembler",)]:
        fm = cg.funcs.get(mq)
        for kind, what, stack, node in cg.sites.get(mq, []):
            if kind not in ("call", "call?") or what == entry or not what.startswith("Program."):
                continue        # only the methods of the program being assembled: constructors called with literals (NumericValue(0x02)) raise on other arguments only
            for exc, origin in sorted(esc.get(what, ())):
                if any(cg.catches(h, exc) for h in stack):
                    continue
                if exc in ("SystemExit",):
                    continue
                site_ = "assembler.main:%s" % what
                if kind == "call?" or (exc, origin) in cg.weak.get(what, ()):
                    c.undecided(site_, "%s may escape (call resolved by method name only)" % exc, "", repo.loc(fm, node))
                else:
                    c.finding(site_, "%s raised at %s is not caught where main calls %s" % (exc, origin, what.split(".")[-1]),
                              "assembler.main calls %s outside any handler for %s (raised at %s): the diagnostic ends the command with a traceback instead of the message and exit status "
                              "that the handlers around Program.process give" % (what, exc, origin), repo.loc(fm, node))
    final = sorted({e for e, _ in esc[entry]} - ALLOWED - {k.split(" via ")[0] for k in TRIAGED})
    c.check(not [k for k in seen if isinstance(k, str) and k not in TRIAGED], entry + ":total", "only ParseError / TranslationError escape",
            "also escaping: %s" % final, "exceptions other than ParseError/TranslationError escape Program.process: %s" % final, "cocoasm/program.py")
    # wrapper totality: the statement-level passes convert every exception
    wrappers = [("Statement", "resolve_symbols", ".resolve_symbols("), ("Statement", "translate", ".translate(")]
    for cls, meth, callee in wrappers:
        f = repo.method(cls, meth)
        _wrapper(repo, c, f, f.node, callee, "%s.%s" % (cls, meth))
    ts = repo.method("Program", "translate_statements")
    from ..inline import flatten
    ts_flat = flatten(repo, ts, depth=2)
    for callee in (".determine_pcr_relative_sizes(", ".set_address(", ".fix_addresses("):
        _wrapper(repo, c, ts, ts_flat, callee, "Program.translate_statements:%s" % callee.strip(".("))
    # parse phase: operand construction wrapped into ParseError
    pl = repo.method("Statement", "parse_line")
    sites = [n for n in ast.walk(pl.node) if isinstance(n, ast.Call) and U(n.func) == "Operand.create_from_str"]
    c.floor("operand construction sites in parse_line", len(sites), 1)
    for s in sites:
        tr = _enclosing_try(pl.node, s)
        types = set()
        if tr is not None:
            for h in tr.handlers:
                if h.type is None:
                    types.add("Exception")
                else:
                    types |= {U(e).split(".")[-1] for e in (h.type.elts if isinstance(h.type, ast.Tuple) else [h.type])}
        good = tr is not None and (types >= {"OperandTypeError", "ValueTypeError"} or "Exception" in types) and \
            all(any(isinstance(x, ast.Raise) and "ParseError" in U(x) for x in ast.walk(h)) for h in tr.handlers)
        c.check(good, "parse_line:create_from_str@%s" % ("FCC" if _in_fcc(pl.node, s) else "general"), "operand/value errors become ParseError", "handlers %s" % sorted(types),
                "Statement.parse_line builds an operand where OperandTypeError/ValueTypeError are not turned into a ParseError (handlers: %s)" % sorted(types), repo.loc(pl, s))
    # ESC-4 diagnostics name the statement/line
    n = 0
    for f in repo.all_funcs():
        if not f.module.rel.startswith("cocoasm/"):
            continue
        for x in ast.walk(f.node):
            if isinstance(x, ast.Raise) and isinstance(x.exc, ast.Call) and U(x.exc.func) in ALLOWED:
                n += 1
                args = x.exc.args
                good = len(args) == 2 and isinstance(args[1], ast.Name)
                c.check(good, "%s:raise %s@%d" % (f.q, U(x.exc.func), n), "carries the offending line/statement", "arguments %s" % [U(a)[:30] for a in args],
                        "%s raises %s without the offending line/statement as second argument" % (f.q, U(x.exc.func)), repo.loc(f, x))
    c.floor("diagnostic raise sites", n, 6)


def _in_fcc(fn_node, node):
    for n in ast.walk(fn_node):
        if isinstance(n, ast.If) and "is_string_define" in U(n.test):
            return any(x is node for b in n.body for x in ast.walk(b))
    return False


def _enclosing_try(fn_node, node):
    best = None
    for n in ast.walk(fn_node):
        if isinstance(n, ast.Try) and any(x is node for b in n.body for x in ast.walk(b)):
            best = n
    return best


def _wrapper(repo, c, f, scope, callee, site):
    calls = [n for n in ast.walk(scope) if isinstance(n, ast.Call) and ("." + U(n.func).split(".")[-1] + "(") == callee and U(n.func) != "self" + callee[:-1]]
    calls = [n for n in calls if not (f.name == U(n.func).split(".")[-1] and U(n.func).startswith("self.") and False)]
    if f.cls is not None and f.cls.name == "Statement":
        calls = [n for n in calls if U(n.func).startswith("self.operand.")]
    if not calls:
        c.undecided(site, "call-not-found", callee, repo.loc(f, scope))
        return
    for call in calls:
        tr = _enclosing_try(scope, call)
        if tr is None:
            c.finding(site, "not wrapped", "%s calls %s outside any handler: any error raised below it leaves Program.process as a traceback" % (f.q, U(call.func)), repo.loc(f, call))
            continue
        broad = [h for h in tr.handlers if h.type is None or U(h.type).split(".")[-1] in ("Exception", "BaseException")]
        conv = all(any(isinstance(x, ast.Raise) and (x.exc is None or "TranslationError" in U(x)) for x in ast.walk(h)) for h in tr.handlers)
        types = [U(h.type) if h.type is not None else "bare" for h in tr.handlers]
        c.check(bool(broad) and conv, site, "every exception becomes a TranslationError", "handlers catch %s" % types,
                "%s wraps %s with handlers %s: exceptions outside that list (IndexError, ZeroDivisionError, AttributeError, ...) escape as a traceback instead of a diagnostic naming the statement"
                % (f.q, U(call.func), types), repo.loc(f, tr))


def esc2(ctx, c):
    """ESC-2 implicit risk patterns in the parse phase (not covered by a broad handler): s[0] / s[-1] on a possibly empty string."""
    repo = ctx.repo
    cg = _cg(ctx)
    reach = cg.reachable_from("Program.parse")
    n = 0
    for q in sorted(reach):
        f = cg.funcs.get(q)
        if f is None or not f.module.rel.startswith("cocoasm/"):
            continue
        g = None
        for x in ast.walk(f.node):
            is_attr = isinstance(x, ast.Subscript) and isinstance(x.value, ast.Attribute) and isinstance(x.value.value, ast.Name) and x.value.value.id == "self"
            if isinstance(x, ast.Subscript) and isinstance(x.ctx, ast.Load) and (isinstance(x.value, ast.Name) or is_attr) and not isinstance(x.slice, ast.Slice):
                k = try_fold(x.slice)
                if k not in (0, -1):
                    continue
                name = U(x.value)
                n += 1
                g = g or CFG(f.node)
                guarded = _guarded(g, f, name, x)
                alias = None
                if is_attr:
                    # self.attr = <parameter> in the same function: the parameter's guards count
                    for a_ in ast.walk(f.node):
                        if isinstance(a_, ast.Assign) and U(a_.targets[0]) == name and isinstance(a_.value, ast.Name) and a_.value.id in f.params:
                            alias = a_.value.id
                    if alias is None and not guarded:
                        # an attribute set elsewhere: decided only when the setter is in view
                        continue
                    if not guarded and alias:
                        guarded = _guarded(g, f, alias, x)
                if not guarded:
                    guarded = _callers_guard(cg, f, alias or name)
                site = "%s:%s[%s]" % (f.q, name, k)
                if guarded:
                    c.ok(site, "dominated by an emptiness check (%s)" % guarded, repo.loc(f, x))
                else:
                    c.finding(site, "indexes a possibly empty value",
                              "%s indexes %s[%s] with no dominating emptiness check; it is reached from Program.parse outside any broad handler, so an empty operand ends in IndexError"
                              % (f.q, name, k), repo.loc(f, x))
    c.floor("first/last-element accesses in the parse phase", n, 2)
    # str.index / list.index raise ValueError when the element is missing
    for q in sorted(reach):
        f = cg.funcs.get(q)
        if f is None or not f.module.rel.startswith("cocoasm/"):
            continue
        for x in ast.walk(f.node):
            if isinstance(x, ast.Call) and isinstance(x.func, ast.Attribute) and x.func.attr in ("index", "rindex") and x.args:
                tr = _enclosing_try(f.node, x)
                caught = tr is not None and any(h.type is None or any(nm in U(h.type) for nm in ("ValueError", "Exception")) for h in tr.handlers)
                if not caught:
                    c.finding("%s:%s" % (f.q, U(x.func)[-30:]), "%s() raises ValueError when nothing is found" % x.func.attr,
                              "%s calls %s outside a handler in the parse phase: when the searched item is missing (an unterminated string) the ValueError leaves Program.process as a traceback"
                              % (f.q, U(x)[:50]), repo.loc(f, x))


def esc2_drivers(ctx, c):
    """the statement list may be empty (Program.parse drops blank and comment-only lines): the drivers do not index it blindly"""
    repo = ctx.repo
    for cn, mn in (("Program", "process"), ("Program", "translate_statements"), ("Program", "__init__")):
        if not repo.has_cls(cn) or mn not in repo.cls(cn).methods:
            continue
        f = repo.cls(cn).methods[mn]
        g = None
        for x in ast.walk(f.node):
            if isinstance(x, ast.Subscript) and isinstance(x.ctx, ast.Load) and not isinstance(x.slice, ast.Slice) and U(x.value) in ("self.statements", "statements") \
                    and try_fold(x.slice) in (0, -1):
                tr = _enclosing_try(f.node, x)
                caught = tr is not None and any(h.type is None or any(nm in U(h.type) for nm in ("IndexError", "LookupError", "Exception")) for h in tr.handlers)
                g = g or CFG(f.node)
                guarded = _guarded(g, f, U(x.value), x)
                site = "%s:%s[%s]" % (f.q, U(x.value), try_fold(x.slice))
                if caught or guarded:
                    c.ok(site, "guarded (%s)" % (guarded or "handler"), repo.loc(f, x))
                else:
                    c.finding(site, "indexes the statement list, which is empty for a source without statements",
                              "%s reads %s with no emptiness check and outside any handler: a source file that holds only blank lines and comments gives an empty list, and the "
                              "IndexError leaves the assembler as a traceback" % (f.q, U(x)), repo.loc(f, x))
    # a symbol named in the source may not be defined: a plain index into the symbol table outside any handler ends in KeyError, not in a diagnostic
    if repo.has_cls("Program"):
        for mn in ("process", "translate_statements"):
            f = repo.cls("Program").methods.get(mn)
            if f is None:
                continue
            for x in ast.walk(f.node):
                if isinstance(x, ast.Subscript) and isinstance(x.ctx, ast.Load) and U(x.value) == "self.symbol_table" and not isinstance(x.slice, ast.Constant):
                    key_names = {y.id for y in ast.walk(x.slice) if isinstance(y, ast.Name)}
                    from_items = any(isinstance(l_, ast.For) and "symbol_table" in U(l_.iter) and key_names & {y.id for y in ast.walk(l_.target) if isinstance(y, ast.Name)}
                                     and any(z is x for z in ast.walk(l_)) for l_ in ast.walk(f.node))
                    tr = _enclosing_try(f.node, x)
                    caught = tr is not None and any(h.type is None or any(nm in U(h.type) for nm in ("KeyError", "LookupError", "Exception")) for h in tr.handlers)
                    guarded = any(isinstance(i_, ast.If) and re.search(r"\bin self\.symbol_table\b", U(i_.test)) and any(z is x for z in ast.walk(i_)) for i_ in ast.walk(f.node))
                    if not (from_items or caught or guarded):
                        c.finding("%s:symbol_table[%s]" % (f.q, U(x.slice)[:30]), "looks a name from the source up with a plain index, outside any handler",
                                  "%s reads `%s`: the key comes from the source text, and a name that is not defined raises KeyError there - no handler turns it into a "
                                  "TranslationError, so the assembler ends in a traceback" % (f.q, U(x)[:60]), repo.loc(f, x))
    # a file may be empty: the first / last element of what readlines() returned is not there to be indexed
    if repo.has_cls("SourceFile"):
        for f in repo.cls("SourceFile").methods.values():
            rl = {U(n_.targets[0]) for n_ in ast.walk(f.node) if isinstance(n_, ast.Assign) and isinstance(n_.value, ast.Call) and isinstance(n_.value.func, ast.Attribute)
                  and n_.value.func.attr in ("readlines", "read", "splitlines")}
            g_ = None
            for x in ast.walk(f.node):
                if isinstance(x, ast.Subscript) and not isinstance(x.slice, ast.Slice) and U(x.value) in rl and try_fold(x.slice) in (0, -1):
                    g_ = g_ or CFG(f.node)
                    tr = _enclosing_try(f.node, x)
                    caught = tr is not None and any(h.type is None or any(nm in U(h.type) for nm in ("IndexError", "LookupError", "Exception")) for h in tr.handlers)
                    if not caught and not _guarded(g_, f, U(x.value), x):
                        c.finding("%s:%s[%s]" % (f.q, U(x.value), try_fold(x.slice)), "indexes the lines of a file that may be empty",
                                  "%s reads `%s` with no emptiness check: a zero-byte source or INCLUDE file gives an empty list and the IndexError - not an OSError - passes every "
                                  "handler around the read and ends the assembler in a traceback" % (f.q, U(x)), repo.loc(f, x))
    # the listing getters render whatever value kinds the table holds: some kinds render as the empty string (an EQU that names another symbol, an EQU
    # without operand), and int('') is a ValueError
    empties = []
    for cn, cl in repo.classes.items():
        hx = cl.methods.get("hex")
        if hx is not None and "Value" in cn:
            rets = [n.value for n in ast.walk(hx.node) if isinstance(n, ast.Return) and n.value is not None]
            if rets and all(isinstance(r_, ast.Constant) and r_.value == "" for r_ in rets):
                empties.append(cn)
    if repo.has_cls("Program"):
        for mn in ("get_symbol_table", "get_statements", "get_binary_array"):
            f = repo.cls("Program").methods.get(mn)
            if f is None:
                continue
            for x in ast.walk(f.node):
                if isinstance(x, ast.Call) and U(x.func) in ("int", "float") and x.args and any(
                        isinstance(y, ast.Call) and isinstance(y.func, ast.Attribute) and y.func.attr in ("hex", "ascii") for y in ast.walk(x.args[0])) \
                        and _enclosing_try(f.node, x) is None and empties:
                    c.finding("%s:%s" % (f.q, U(x)[:30]), "converts a rendering that is empty for %s" % ", ".join(sorted(empties)[:3]),
                              "%s computes `%s`: %s render as '' (the table holds such values for `A EQU B` and for an EQU without operand), so the conversion raises ValueError "
                              "and the listing ends in a traceback after a successful assembly" % (f.q, U(x)[:50], ", ".join(sorted(empties))), repo.loc(f, x))
    # bytes.fromhex wants an even number of digits: the RMB filler for a count of 0 is NumericValue(0, size_hint=0), whose rendering is folded here
    if repo.has_cls("Program") and repo.has_cls("NumericValue"):
        from .wid import fold_constructor as _fcz, fold_method as _fmz
        odd = None
        try:
            st_ = _fcz(ctx, "NumericValue", {"value": 0, "size_hint": 0})
            hx_ = _fmz(ctx, "NumericValue", "hex", {k_: v_ for k_, v_ in st_.items() if k_.startswith("self.")})
            if isinstance(hx_, str) and len(hx_) % 2 == 1:
                odd = hx_
        except Exception:
            odd = None
        for mn in ("get_binary_array", "get_statements", "get_symbol_table"):
            f = repo.cls("Program").methods.get(mn)
            if f is None:
                continue
            for x in ast.walk(f.node):
                if isinstance(x, ast.Call) and U(x.func) in ("bytes.fromhex", "bytearray.fromhex", "binascii.unhexlify") and x.args and any(
                        isinstance(y, ast.Call) and isinstance(y.func, ast.Attribute) and y.func.attr == "hex" for y in ast.walk(x.args[0])) and _enclosing_try(f.node, x) is None and odd:
                    c.finding("%s:%s" % (f.q, U(x.func)), "converts a rendering that can have an odd number of digits (%r for RMB 0)" % odd,
                              "%s computes `%s`: the filler of `RMB 0` is NumericValue(0, size_hint=0), which renders as %r - an odd number of digits, for which %s raises ValueError "
                              "after the assembly itself has succeeded" % (f.q, U(x)[:50], odd, U(x.func)), repo.loc(f, x))
    # the handlers that print a diagnostic do not raise themselves: a look-up that fails there replaces the diagnostic by a traceback
    for rel in ("assembler.py", "file_util.py"):
        if rel not in repo.modules or "main" not in repo.modules[rel].funcs:
            continue
        f = repo.modules[rel].funcs["main"]
        for tr in [n for n in ast.walk(f.node) if isinstance(n, ast.Try)]:
            for h in tr.handlers:
                for x in [y for b_ in h.body for y in ast.walk(b_)]:
                    if isinstance(x, ast.Call) and isinstance(x.func, ast.Attribute) and x.func.attr in ("index", "rindex", "remove") and x.args:
                        inner = _enclosing_try(ast.Module(body=h.body, type_ignores=[]), x)
                        if inner is None:
                            c.finding("%s:handler(%s):%s" % (f.q, U(h.type) if h.type is not None else "bare", x.func.attr), "%s() in the handler raises ValueError when the item is not found" % x.func.attr,
                                      "the %s handler of %s calls `%s`: when the item is not there (a line of an INCLUDEd file is not in the main buffer) the ValueError replaces the "
                                      "diagnostic by a traceback" % (U(h.type) if h.type is not None else "bare", f.q, U(x)[:60]), repo.loc(f, x))


def _guarded(g, f, name, sub):
    """a test mentioning `name` (emptiness / length / membership-producing find) dominates the access with its failing edge leading only to raise/return"""
    target = None
    for i, k, n in g.nodes:
        if n is not None and any(x is sub for x in ast.walk(n if not isinstance(n, ast.stmt) or k != "loop" else n)):
            if k in ("stmt", "test", "return", "raise"):
                target = i
                break
    if target is None:
        return None
    for i, k, n in g.nodes:
        if k == "test" and re.search(r"(not %s\b|len\(%s\)|%s ==|%s !=|^%s$)" % ((re.escape(name),) * 5), U(n)):
            for label in (True, False):
                if target not in g.reachable(avoid_edges=[(i, not label)]) or True:
                    # the access is reachable only through one edge of this test?
                    if target not in g.reachable(avoid_edges=[(i, label)]):
                        return "`%s` must be %s" % (U(n), label)
    return None


def _callers_guard(cg, f, name):
    """the value is a parameter and every caller validated it before the call (one level)"""
    if name not in f.params:
        return None
    idx = [p for p in f.params if p not in ("self", "cls")].index(name) if name in f.params else None
    callers = []
    for q, acc in cg.sites.items():
        for kind, what, stack, node in acc:
            if kind in ("call", "call?") and what == f.q:
                callers.append((q, node))
    if not callers:
        return None
    for q, node in callers:
        cf = cg.funcs[q]
        if idx is None or idx >= len(node.args) or not isinstance(node.args[idx], ast.Name):
            return None
        g = CFG(cf.node)
        if not _guarded_call(g, cf, node.args[idx].id, node):
            return None
    return "validated by every caller (%s)" % ", ".join(sorted({q for q, _ in callers}))


def _guarded_call(g, f, name, call):
    target = None
    for i, k, n in g.nodes:
        if n is not None and k in ("stmt", "return", "test") and any(x is call for x in ast.walk(n)):
            target = i
            break
    if target is None:
        # the call may sit inside a try body statement that the CFG keeps as stmt nodes; search again including handlers
        return False
    for i, k, n in g.nodes:
        if k == "test" and re.search(r"not %s\b" % re.escape(name), U(n)):
            if target not in g.reachable(avoid_edges=[(i, False)]) and g.only_raises_after(i, True):
                return True
    return False


def term1(ctx, c):
    """TERM-1 the sizing loop makes progress; TERM-2 recursion reachable from Program.process."""
    repo = ctx.repo
    ts = repo.method("Program", "translate_statements")
    where = repo.loc(ts, ts.node)
    from ..inline import flatten
    ts_flat = flatten(repo, ts, depth=2)
    loops = [n for n in ast.walk(ts_flat) if isinstance(n, ast.While)]
    c.floor("while loops in translate_statements", len(loops), 1)
    from . import rel
    from ..report import Collector
    rc = ctx.cache.get(("rule", "REL-3"))
    if rc is None:
        rc = Collector("REL-3")
        rel.rel3(ctx, rc)
        ctx.cache[("rule", "REL-3")] = rc
    progress = [i for i in rc.insts if i.site == "determine_pcr_relative_sizes:progress"]
    always_fixes = bool(progress) and all(i.verdict == "PASS" for i in progress)
    for lp in loops:
        t = U(lp.test)
        calls = [U(x.func) for x in ast.walk(lp) if isinstance(x, ast.Call)]
        site = "translate_statements:while %s" % t[:40]
        if "all_sizes_fixed" in t:
            covers = any(isinstance(x, ast.For) and re.fullmatch(r"enumerate\(self\.statements\)|self\.statements", U(x.iter)) for x in ast.walk(lp)) and \
                any(x.endswith(".determine_pcr_relative_sizes") for x in calls)
            has_exit = any(isinstance(x, ast.Break) for x in ast.walk(lp)) or any(isinstance(x, ast.Raise) for x in lp.body)
            # the sizing call must be made for EVERY statement that all_sizes_fixed() still reports as unsized
            for gi in [x for x in ast.walk(lp) if isinstance(x, ast.If) and any(isinstance(y, ast.Call) and U(y.func).endswith(".determine_pcr_relative_sizes") for y in ast.walk(x))]:
                tt = gi.test
                conj = tt.values if isinstance(tt, ast.BoolOp) and isinstance(tt.op, ast.And) else [tt]
                extra = [U(v) for v in conj if re.fullmatch(r"not \w+\.fixed_size", U(v)) is None]
                if extra:
                    covers = False
                    c.finding(site + ":coverage", "sizing is skipped for unsized statements unless %s" % " and ".join(extra),
                              "the sizing loop runs until no statement is unsized, but sizes a statement only when `%s` also holds: an unsized statement failing that test is never sized and the loop never ends"
                              % " and ".join(extra), repo.loc(ts, gi))
            if covers and always_fixes:
                c.ok(site, "every unfixed statement is sized on each pass and sizing always fixes it: at most one pass", repo.loc(ts, lp))
            elif has_exit and covers:
                c.ok(site, "the loop has a no-progress exit", repo.loc(ts, lp))
            elif not covers and not has_exit and not any(isinstance(x, (ast.Return, ast.Raise)) and not any(x in list(ast.walk(h)) for t_ in ast.walk(lp) if isinstance(t_, ast.Try) for h in t_.handlers)
                                                        for x in ast.walk(lp)) and \
                    all(cn in ("enumerate", "range", "len", "print", "str", "repr", "TranslationError", "ParseError") or cn.startswith("logging.") for cn in calls
                        if cn != "self.all_sizes_fixed") and not any(isinstance(x, (ast.Assign, ast.AugAssign)) and "fixed_size" in U(x) for x in ast.walk(lp)):
                c.finding(site, "nothing in the loop can change what its test reads",
                          "the loop repeats while some statement is unsized, but its body neither sizes a statement nor leaves the loop (calls made: %s): with one PC-relative "
                          "operand awaiting its size the assembler never returns" % sorted(set(calls) - {"self.all_sizes_fixed"}), repo.loc(ts, lp))
            elif not covers:
                c.undecided(site, "sizing-loop-shape-not-recognised", "", repo.loc(ts, lp))
            else:
                c.finding(site, "no progress argument",
                          "the sizing loop repeats until every statement is fixed, but determine_pcr_relative_sizes can return without fixing anything and the loop has no no-progress exit: "
                          "mutually dependent label,PCR operands on the 8/16-bit boundary hang the assembler", repo.loc(ts, lp))
        else:
            c.undecided(site, "loop-not-recognised", t, repo.loc(ts, lp))
    af = repo.method("Program", "all_sizes_fixed")
    t = U(af.node)
    good = re.search(r"for (\w+) in self\.statements:\s+if not \1\.fixed_size:\s+return False\s+return True", t) is not None or \
        re.search(r"return all\(\(?(\w+)\.fixed_size for \1 in self\.statements\)?\)", t) is not None or \
        re.search(r"return not any\(\(?not (\w+)\.fixed_size for \1 in self\.statements\)?\)", t) is not None
    # decide by evaluating the predicate for three statement lists
    from ..concrete import Obj as _Obj, run_concrete as _rc
    verdicts = []
    notes_all = []
    for flags, want in (([], True), ([True, True], True), ([True, False], False), ([False], False), ([False, True, True], False)):
        objs = []
        for fl in flags:
            o = _Obj("Statement")
            o.attrs["fixed_size"] = fl
            objs.append(o)
        env_ = dict(ctx.env)
        env_["self.statements"] = objs
        ev_, nt_ = [], []
        _rc(body_without_doc(af.node), env_, ev_, nt_)
        notes_all += nt_
        verdicts.append((flags, env_.get("$return"), want))
    wrong = [(f_, g_) for f_, g_, w_ in verdicts if g_ is not w_]
    if not wrong:
        c.ok("Program.all_sizes_fixed", "False iff some statement is not fixed", repo.loc(af, af.node))
    elif notes_all or any(not isinstance(g_, bool) for _, g_ in wrong):
        c.shape(good, "Program.all_sizes_fixed", "False iff some statement is not fixed", "all_sizes_fixed has another shape", repo.loc(af, af.node))
    else:
        c.finding("Program.all_sizes_fixed", "answers %s for statements with fixed_size %s" % (wrong[0][1], wrong[0][0]),
                  "Program.all_sizes_fixed returns %s for statements whose fixed_size flags are %s: the sizing loop %s" %
                  (wrong[0][1], wrong[0][0], "never ends" if wrong[0][1] is False else "stops while a statement is still unsized, which is then laid out with its provisional size"),
                  repo.loc(af, af.node))
    # TERM-3 every other while loop that assembling can reach
    cg = _cg(ctx)
    reach3 = cg.reachable_from("Program.process")
    for q in sorted(reach3):
        f = cg.funcs.get(q)
        if f is None or not f.module.rel.startswith("cocoasm/") or "virtualfiles" in f.module.rel or q == "Program.translate_statements":
            continue
        for lp in [x for x in ast.walk(f.node) if isinstance(x, ast.While)]:
            site = "%s:while %s" % (q, U(lp.test)[:40])
            tvars = {U(x) for x in ast.walk(lp.test) if isinstance(x, (ast.Name, ast.Attribute))}
            exits = [x for x in ast.walk(lp) if isinstance(x, (ast.Break, ast.Return, ast.Raise))]
            stores = [x for x in ast.walk(lp) if isinstance(x, (ast.Assign, ast.AugAssign))]
            chain = [x for x in stores if isinstance(x, ast.Assign) and U(x.targets[0]) in tvars and isinstance(x.value, ast.Call)
                     and any(U(y) == U(x.targets[0]) or U(y).startswith(U(x.targets[0]) + ".") for y in ast.walk(x.value) if isinstance(y, (ast.Name, ast.Attribute)))]
            counters = [x for x in stores if isinstance(x, ast.AugAssign)]
            sets = [x for x in ast.walk(lp) if isinstance(x, ast.Call) and isinstance(x.func, ast.Attribute) and x.func.attr in ("add", "append")]
            if chain and len(stores) == len(chain) and not exits and not counters and not sets:
                c.finding(site, "follows a chain of look-ups with nothing to stop a cycle",
                          "%s repeats `%s` while `%s`: each step looks the next link up from the previous one and nothing records the links already seen, so definitions that refer "
                          "to each other in a circle keep the assembler in this loop for ever" % (q, U(chain[0])[:60], U(lp.test)[:50]), repo.loc(f, lp))
            elif counters or sets or exits:
                c.undecided(site, "loop-termination-not-established", "", repo.loc(f, lp))
            else:
                c.undecided(site, "loop-termination-not-established", "", repo.loc(f, lp))
    # TERM-4 regular expressions applied to source text: an unbounded repetition of a group that itself starts with an unbounded repetition and
    # can end without consuming anything else ((a+)+, (a+b*)+) matches a run of n characters in 2^(n-1) ways; when the overall match fails
    # the engine tries them all, so one long identifier stops the assembler
    import re._parser as _sp
    import re._constants as _sc

    def can_be_empty(items):
        for op, av in items:
            if op in (_sc.MAX_REPEAT, _sc.MIN_REPEAT):
                if av[0] == 0:
                    continue
                if not can_be_empty(list(av[2])):
                    return False
            elif op is _sc.SUBPATTERN:
                if not can_be_empty(list(av[3])):
                    return False
            elif op is _sc.BRANCH:
                if not any(can_be_empty(list(b)) for b in av[1]):
                    return False
            elif op is _sc.AT:
                continue
            else:
                return False
        return True

    def ambiguous(items):
        """-> text of the first nested repetition of the (X+ Y*)+ kind, or None"""
        for op, av in items:
            if op in (_sc.MAX_REPEAT, _sc.MIN_REPEAT):
                lo, hi, body = av
                body = list(body)
                inner = body
                while len(inner) == 1 and inner[0][0] is _sc.SUBPATTERN:
                    inner = list(inner[0][1][3])
                if hi is _sc.MAXREPEAT or (isinstance(hi, int) and hi > 16):
                    for i_, (op2, av2) in enumerate(inner):
                        if op2 in (_sc.MAX_REPEAT, _sc.MIN_REPEAT) and (av2[1] is _sc.MAXREPEAT or (isinstance(av2[1], int) and av2[1] > 16)) and av2[0] >= 1 \
                                and can_be_empty(inner[:i_]) and can_be_empty(inner[i_ + 1:]):
                            return True
                r = ambiguous(body)
                if r:
                    return r
            elif op is _sc.SUBPATTERN:
                r = ambiguous(list(av[3]))
                if r:
                    return r
            elif op is _sc.BRANCH:
                for b in av[1]:
                    r = ambiguous(list(b))
                    if r:
                        return r
        return None
    npat = 0
    for m in repo.modules.values():
        if not m.rel.startswith("cocoasm/") or "virtualfiles" in m.rel:
            continue
        for nm, node_ in m.assigns.items():
            if isinstance(node_, ast.Call) and U(node_.func) == "re.compile" and node_.args:
                pat = try_fold(node_.args[0], ctx.env)
                if not isinstance(pat, str):
                    continue
                npat += 1
                try:
                    tree = _sp.parse(pat)
                except Exception:
                    c.undecided("regex:%s" % nm, "pattern-not-parsable", pat[:40], m.rel)
                    continue
                if ambiguous(list(tree)):
                    c.finding("regex:%s" % nm, "nested unbounded repetition that can split one run of characters in exponentially many ways",
                              "%s in %s is %r: a repeated group that begins with a repeated character class and may end there. When the overall match fails, the engine retries "
                              "every way of splitting the run, 2^(n-1) of them for n characters: one long name makes the assembler hang" % (nm, m.rel, pat), "%s:%d" % (m.rel, node_.lineno))
                else:
                    c.ok("regex:%s" % nm, "no ambiguous nested repetition", "%s:%d" % (m.rel, node_.lineno))
    # TERM-2
    cyc = cg.cycles_from("Program.process")
    for q in cyc:
        f = cg.funcs[q]
        w = repo.loc(f, f.node)
        if q == "Program.process_mnemonics":
            guarded = False
            params = [p for p in f.params if p not in ("self", "cls")]
            from ..inline import flatten as _fl
            fnode = _fl(repo, f, depth=2, only={m_ for m_ in (f.cls.methods if f.cls else {}) if m_ not in ("process_mnemonics", "parse")})
            # the recursion may run through a helper (process_mnemonics -> expansion_of -> process_mnemonics): the methods of the class that call back are read with it
            partners = [m_ for n_, m_ in (f.cls.methods.items() if f.cls else []) if n_ != "process_mnemonics"
                        and any(isinstance(x, ast.Call) and U(x.func).endswith("process_mnemonics") for x in ast.walk(m_.node))]
            if partners:
                fnode = ast.Module(body=[fnode] + [_fl(repo, m_, depth=1, only=set()) for m_ in partners], type_ignores=[])
                params = params + [p_ for m_ in partners for p_ in m_.params if p_ not in ("self", "cls") and p_ not in params]
            for n in ast.walk(fnode):
                if isinstance(n, ast.If) and isinstance(n.test, ast.Compare) and isinstance(n.test.ops[0], ast.In) and U(n.test.comparators[0]) in params \
                        and n.body and isinstance(n.body[-1], ast.Raise):
                    trail = U(n.test.comparators[0])
                    key = U(n.test.left)
                    for rcall in ast.walk(fnode):
                        if isinstance(rcall, ast.Call) and U(rcall.func).endswith("process_mnemonics"):
                            rest = [U(a) for a in rcall.args[1:]] + [U(k.value) for k in rcall.keywords]
                            if any(trail in a and key in a for a in rest):
                                guarded = True
            dropped = None
            other_name = None
            for n in ast.walk(fnode):
                if isinstance(n, ast.If) and isinstance(n.test, ast.Compare) and isinstance(n.test.ops[0], ast.In) and U(n.test.comparators[0]) in params \
                        and n.body and isinstance(n.body[-1], ast.Raise):
                    trail, key = U(n.test.comparators[0]), U(n.test.left)
                    for rcall in ast.walk(fnode):
                        if isinstance(rcall, ast.Call) and U(rcall.func).endswith("process_mnemonics"):
                            rest = [U(a) for a in rcall.args[1:]] + [U(k.value) for k in rcall.keywords]
                            if rest and not any(trail in a for a in rest) and any(key in a for a in rest):
                                dropped = (trail, rest)
                            # the chain is extended, but with another name than the one the test looks for
                            for a in rest:
                                m_ = re.search(r"%s \+ [\(\[](\w+),?[\)\]]" % re.escape(trail), a)
                                if m_ and m_.group(1) != key and not guarded:
                                    other_name = (trail, key, m_.group(1))
            if other_name and not guarded:
                c.finding("recursion:%s" % q, "the chain records %s, the cycle test looks for %s" % (other_name[2], other_name[1]),
                          "process_mnemonics extends %s with `%s` but rejects a cycle by testing `%s in %s`: the two are different spellings of the file (one carries the directory), so "
                          "a file that includes itself is not recognised and the recursion only ends in RecursionError" % (other_name[0], other_name[2], other_name[1], other_name[0]), w)
            elif guarded:
                c.ok("recursion:%s" % q, "bounded by a visited set / depth check", w)
            elif dropped:
                c.finding("recursion:%s" % q, "the trail of files being expanded is not passed on (%s)" % dropped[1][0][:40],
                          "process_mnemonics checks the file against `%s` but calls itself with %s: the check only ever sees the immediate parent, so a cycle through two files recurses until RecursionError"
                          % (dropped[0], dropped[1]), w)
            elif any(isinstance(x, ast.Raise) for x in ast.walk(fnode)) and len(params) > 1:
                c.undecided("recursion:%s" % q, "a trail parameter and a raise exist but the cycle check was not recognised", "", w)
            else:
                c.finding("recursion:%s" % q, "recursion on file contents without a visited set or depth bound",
                          "process_mnemonics recurses into every INCLUDE with no record of the files being expanded: a file that includes itself ends in RecursionError", w)
        elif q in CYCLES_TRIAGED:
            c.ok("recursion:%s" % q, "triaged: %s" % CYCLES_TRIAGED[q], w)
        else:
            c.undecided("recursion:%s" % q, "untriaged call cycle reachable from Program.process", "", w)


RULES = {"ESC-1": esc1, "ESC-2": (lambda ctx, c: (esc2(ctx, c), esc2_drivers(ctx, c))), "TERM-1": term1}
