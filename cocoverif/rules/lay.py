"""LAY (layout passes), EXP (expressions), DIR (directives), INC (include), TXT (line syntax) rules."""
import ast
import re

from ..model import U, body_without_doc, AnalysisError
from ..consteval import try_fold
from ..cfg import CFG
from ..absint import Interp, Ctor, Lin, Const, Opq, PathCap, strip_ver

PHASES = [
    ("include expansion", lambda t: "process_mnemonics" in t),
    ("symbol collection", lambda t: "save_symbol" in t),
    ("symbol resolution", lambda t: ".resolve_symbols(" in t),
    ("translation", lambda t: re.search(r"\bstatement\.translate\(\)|\.translate\(\)", t) is not None),
    ("size fixpoint", lambda t: "determine_pcr_relative_sizes" in t),
    ("address assignment", lambda t: ".set_address(" in t),
    ("address fix-up", lambda t: ".fix_addresses(" in t),
    ("symbol back-patch", lambda t: "symbol_table" in t and ".code_pkg.address" in t),
    ("origin/name", lambda t: "is_origin" in t or "is_name" in t),
]


def lay1(ctx, c):
    """LAY-1 pass order of Program.translate_statements; LAY-2 address pass; LAY-4 origin."""
    repo = ctx.repo
    fn = repo.method("Program", "translate_statements")
    where = repo.loc(fn, fn.node)
    from ..inline import flatten
    flat = flatten(repo, fn, depth=2, only={m_ for m_ in repo.cls("Program").methods if m_ not in ("process_mnemonics", "save_symbol", "all_sizes_fixed", "parse")})
    body = body_without_doc(flat)
    pos = {}
    st_methods = repo.cls("Statement").methods if repo.has_cls("Statement") else {}

    def with_callees(node):
        """the text of a statement plus the bodies of the Statement methods it calls on other objects (statement.place(x) -> the body of place)"""
        t_ = U(node)
        for x in ast.walk(node):
            if isinstance(x, ast.Call) and isinstance(x.func, ast.Attribute) and x.func.attr in st_methods and not (isinstance(x.func.value, ast.Name) and x.func.value.id == "self") \
                    and x.func.attr not in ("translate", "resolve_symbols", "set_address", "fix_addresses", "determine_pcr_relative_sizes"):
                t_ += "\n" + U(st_methods[x.func.attr].node).replace("self.", "statement.")
        return t_
    for i, st in enumerate(body):
        t = with_callees(st)
        for name, pred in PHASES:
            if pred(t) and name not in pos:
                pos[name] = (i, st)
    missing = [n for n, _ in PHASES if n not in pos]
    if missing:
        whole = with_callees(flat)
        really = [n for n, pred in PHASES if n in missing and not pred(whole)]
        if really:
            c.finding("translate_statements:phases", "phase(s) missing: %s" % ", ".join(really),
                      "Program.translate_statements (with its helpers) contains no code performing: %s" % ", ".join(really), where)
        else:
            c.undecided("translate_statements:phases", "phase(s) not located at statement level: %s" % ", ".join(missing), "", where)
    order = [n for n, _ in sorted(((n, pos[n][0]) for n in pos), key=lambda kv: kv[1])]
    want = [n for n, _ in PHASES if n in pos]
    # phases sharing one top-level statement have equal index: that merges passes
    idxs = [pos[n][0] for n in want]
    strictly = all(a < b for a, b in zip(idxs, idxs[1:]))
    if missing:
        pass
    else:
      c.check(order == want and strictly, "translate_statements:order", " -> ".join(want),
            "order: %s" % " -> ".join("%s@%d" % (n, pos[n][0]) for n in order),
            "Program.translate_statements runs its passes as %s; each pass needs the previous one complete over ALL statements "
            "(e.g. every symbol collected before any is resolved, every size fixed before addresses are assigned)"
            % " -> ".join("%s@%d" % (n, pos[n][0]) for n in order), where)
    c.floor("phases located", len(pos), 7)
    # each phase iterates all of self.statements
    for name in ("symbol collection", "symbol resolution", "translation", "address assignment", "address fix-up"):
        if name not in pos:
            continue
        st = pos[name][1]
        it = U(st.iter) if isinstance(st, ast.For) else ""
        good = isinstance(st, ast.For) and re.fullmatch(r"enumerate\(self\.statements\)|self\.statements", it) is not None
        if good:
            c.ok("translate_statements:%s" % name, "for every statement, in order", repo.loc(fn, st))
        elif isinstance(st, ast.For) and re.search(r"reversed|\[1:\]|\[:-1\]|\[::|sorted", it):
            c.finding("translate_statements:%s" % name, "iterates %s" % it, "the %s pass iterates %s instead of all of self.statements in order" % (name, it), repo.loc(fn, st))
        else:
            c.undecided("translate_statements:%s" % name, "iteration-shape-not-recognised", it or type(st).__name__, repo.loc(fn, st))
    # every symbol is collected before any operand is resolved: a definition entered later (under a condition, or inside the resolution pass)
    # is unknown to the statements that use it earlier in the source
    if "symbol collection" in pos and "symbol resolution" in pos:
        cst, rst = pos["symbol collection"][1], pos["symbol resolution"][1]

        def guards(root, call):
            out = []

            def walk(node, stack):
                for ch in ast.iter_child_nodes(node):
                    if ch is call:
                        out.extend(stack)
                    walk(ch, stack + [node] if isinstance(node, ast.If) else stack)
            walk(root, [])
            return out
        calls_c = [x for x in ast.walk(cst) if isinstance(x, ast.Call) and U(x.func).endswith("save_symbol")]
        late = [x for x in ast.walk(rst) if isinstance(x, ast.Call) and U(x.func).endswith("save_symbol")] if rst is not cst else []
        # `if statement.label:` skips nothing that has a symbol
        cond = [g for x in calls_c for g in guards(cst, x) if not re.fullmatch(r"(not )?[\w.]*\.label( (is not None|!= ''|!= \"\"))?", U(g.test))]
        if late:
            c.finding("translate_statements:collection-complete", "symbols are also entered during the resolution pass",
                      "save_symbol is called inside the pass that resolves operands (`%s`): a symbol defined further down is not yet in the table when an earlier statement that uses it "
                      "is resolved, so forward references to it are rejected or read stale values" % U(late[0])[:60], repo.loc(fn, late[0]))
        elif cond:
            c.finding("translate_statements:collection-complete", "the collection pass skips statements (%s)" % U(cond[0].test)[:50],
                      "the collection pass enters a statement's symbol only under `%s`: the symbols of the other statements are not known when operands are resolved" % U(cond[0].test)[:70],
                      repo.loc(fn, cond[0]))
        elif calls_c:
            c.ok("translate_statements:collection-complete", "every statement's symbol is entered before any operand is resolved", repo.loc(fn, cst))
    # no pass stops before the last statement
    for name in [n_ for n_, _ in PHASES if n_ in pos]:
        st = pos[name][1]
        if isinstance(st, ast.For) and "statements" in U(st.iter):
            inner = [x for x in ast.walk(st) if isinstance(x, (ast.For, ast.While)) and x is not st]
            exits = [x for x in ast.walk(st) if isinstance(x, (ast.Break, ast.Return)) and not any(x in list(ast.walk(i)) for i in inner)]
            if exits:
                c.finding("translate_statements:%s:early-exit" % name, "the %s pass leaves its loop early" % name,
                          "the %s pass stops at `%s` instead of visiting every statement: what the statements after that point define or need is ignored"
                          % (name, U(next((p_ for p_ in ast.walk(st) if isinstance(p_, ast.If) and any(e is x for e in exits for x in ast.walk(p_))), exits[0]))[:70].split("\n")[0]),
                          repo.loc(fn, exits[0]))
    # the origin reported is the ORG that the code follows: for `ORG a / (no code) / ORG b / code` it is b
    if "origin/name" in pos:
        from ..concrete import Obj as _Oo, Desc as _Do, run_concrete as _rco

        def mkst(is_org, addr, size):
            st_ = _Oo("Statement")
            ins_ = _Oo("Instruction")
            ins_.attrs.update({"is_origin": is_org, "is_name": False})
            pk_ = _Oo("CodePackage")
            ad_ = _Oo("NumericValue", label="<address %s>" % addr)
            ad_.attrs["none"] = False
            pk_.attrs.update({"address": ad_, "size": size})
            op_ = _Oo("Operand")
            op_.attrs["operand_string"] = "X"
            st_.attrs.update({"instruction": ins_, "code_pkg": pk_, "operand": op_})
            return st_
        sts = [mkst(True, "$2000", 0), mkst(False, "$2000", 0), mkst(True, "$1000", 0), mkst(False, "$1000", 2)]
        none_ = _Oo("NoneValue", label="<no origin yet>")
        none_.attrs["none"] = True
        envo = dict(ctx.env)
        envo.update({"self.statements": sts, "self.origin": none_, "self.name": None})
        evo, nto = [], []
        # the scan may be spread over several top-level statements (one per quantity): evaluate everything from the first of them on
        _rco(body[pos["origin/name"][0]:], envo, evo, nto, hooks={("*", "is_none"): (lambda r, a: bool(r.attrs.get("none")))})
        og = envo.get("self.origin")
        if nto:
            c.undecided("translate_statements:origin-choice", "scan-not-evaluable", "; ".join(sorted(set(nto)))[:100], repo.loc(fn, pos["origin/name"][1]))
        elif isinstance(og, _Oo) and repr(og) == "<address $1000>":
            c.ok("translate_statements:origin-choice", "ORG a / ORG b / code -> origin b", repo.loc(fn, pos["origin/name"][1]))
        else:
            c.finding("translate_statements:origin-choice", "for ORG $2000 / equates / ORG $1000 / code the origin is %r" % (og,),
                      "the origin/name scan, evaluated for `ORG $2000`, a statement without code, `ORG $1000`, code, reports the origin %r: the code is laid out at $1000, so the image "
                      "would be loaded at another address than the listing shows" % (og,), repo.loc(fn, pos["origin/name"][1]))
    # the origin is where the image is loaded: it comes from ORG, not from END (whose operand is the entry point) or any other statement
    for n_ in ast.walk(flat):
        if isinstance(n_, ast.If) and any(isinstance(x, ast.Assign) and any(U(t_) == "self.origin" for t_ in x.targets) for b_ in n_.body for x in ast.walk(b_)):
            if re.search(r"'END'|\"END\"|is_end\b|\.mnemonic (==|in)", U(n_.test)) and "ORG" not in U(n_.test) and "is_origin" not in U(n_.test):
                c.finding("translate_statements:origin-source", "the origin is taken from another statement than ORG (%s)" % U(n_.test)[:50],
                          "translate_statements sets self.origin under `%s`: the image still begins with the first statement after ORG, so the load address reported (and written into "
                          "the cassette / disk headers) is no longer where the bytes belong" % U(n_.test)[:70], repo.loc(fn, n_))
    # the program's name is the NAM operand as written: the parsed value has lost a leading < > or # (Value.create_from_str strips addressing prefixes)
    for n_ in ast.walk(flat):
        if isinstance(n_, ast.Assign) and any(U(t_) == "self.name" for t_ in n_.targets) and isinstance(n_.value, (ast.Attribute, ast.Call)) and "operand" in U(n_.value):
            if re.fullmatch(r"\w+\.operand\.operand_string", U(n_.value)):
                c.ok("translate_statements:name-source", "the NAM operand as written", repo.loc(fn, n_))
            elif re.search(r"\.operand\.value\b|\.ascii\(\)|\.hex\(\)|original_string", U(n_.value)):
                c.finding("translate_statements:name-source", "the name is taken from the parsed value (%s)" % U(n_.value)[:40],
                          "translate_statements sets self.name from `%s`: the value classes strip a leading < > or # and keep only what parses, so a NAM operand such as >GAME or #1 is stored "
                          "under another name than the one written" % U(n_.value)[:60], repo.loc(fn, n_))
    # the fix-up pass hands each statement its own position: a position looked up by value finds the first EQUAL statement
    # (Statement defines __eq__ over a few fields), which is another statement whenever two lines read alike
    def position_source(loop, idx):
        """where the position handed to a per-statement pass comes from: 'enumerate', 'by-value' (list.index) or None"""
        if any(isinstance(x, ast.Call) and isinstance(x.func, ast.Attribute) and x.func.attr == "index" for x in ast.walk(idx)):
            return "by-value", U(idx)
        fors = [x for x in ast.walk(loop) if isinstance(x, ast.For)] if not isinstance(loop, ast.For) else [loop] + [x for x in ast.walk(loop) if isinstance(x, ast.For) and x is not loop]
        for f_ in fors:
            if isinstance(f_.target, ast.Tuple) and isinstance(idx, ast.Name) and any(isinstance(e_, ast.Name) and e_.id == idx.id for e_ in f_.target.elts):
                first = isinstance(f_.target.elts[0], ast.Name) and f_.target.elts[0].id == idx.id
                it_ = f_.iter
                if isinstance(it_, ast.Call) and U(it_.func) == "enumerate" and first and it_.args and U(it_.args[0]) == "self.statements" and len(it_.args) == 1 and not it_.keywords:
                    return "enumerate", U(it_)
                byv = [x for x in ast.walk(it_) if isinstance(x, ast.Call) and isinstance(x.func, ast.Attribute) and x.func.attr == "index"]
                if byv:
                    return "by-value", U(byv[0])
        return None, U(idx)

    has_eq = "__eq__" in repo.cls("Statement").methods
    for phase, meth, site_ in (("address fix-up", ".fix_addresses", "fix-up-index"), ("size fixpoint", ".determine_pcr_relative_sizes", "sizing-index")):
        if phase not in pos:
            continue
        st = pos[phase][1]
        for call in [x for x in ast.walk(st) if isinstance(x, ast.Call) and U(x.func).endswith(meth) and len(x.args) >= 2]:
            kind_, src_ = position_source(st, call.args[1])
            if kind_ == "by-value" and has_eq:
                c.finding("translate_statements:%s" % site_, "the position is looked up by value (%s)" % src_[:50],
                          "the %s pass passes a position obtained by `%s`: list.index compares with Statement.__eq__, so for two statements that compare equal the "
                          "second one is handled as if it stood where the first does (its backward/forward decision, span and offset are computed from the wrong place)" % (phase, src_[:60]),
                          repo.loc(fn, call))
            elif kind_ == "enumerate":
                c.ok("translate_statements:%s" % site_, "the enumerate index of the statement itself", repo.loc(fn, call))
    # a directive acts on the lines that follow it: a quantity collected over ALL statements ("last one wins") and then applied to every statement makes the bytes of an earlier
    # statement depend on lines that come after it - appending statements to a program then changes what is already there
    tl_loops = [(i_, st_) for i_, st_ in enumerate(body) if isinstance(st_, ast.For) and re.fullmatch(r"(enumerate\()?self\.statements\)?", U(st_.iter))]
    for i1, l1 in tl_loops:
        collected = {U(t_) for n_ in ast.walk(l1) if isinstance(n_, (ast.Assign, ast.AugAssign)) for t_ in (n_.targets if isinstance(n_, ast.Assign) else [n_.target])
                     if isinstance(t_, ast.Name)}
        tgt1 = {x.id for x in ast.walk(l1.target) if isinstance(x, ast.Name)}
        collected -= tgt1
        collected = {v_ for v_ in collected if any(isinstance(n_, ast.Assign) and any(U(t_) == v_ for t_ in n_.targets) and re.search(r"\b(%s)\." % "|".join(map(re.escape, tgt1 or {"statement"})), U(n_.value))
                                                     for n_ in ast.walk(l1))}
        for i2, l2 in tl_loops:
            if i2 <= i1:
                continue
            tgt2 = {x.id for x in ast.walk(l2.target) if isinstance(x, ast.Name)}
            uses = [v_ for v_ in collected if any(isinstance(x, ast.Name) and x.id == v_ and isinstance(x.ctx, ast.Load) for x in ast.walk(l2))]
            writes = [n_ for n_ in ast.walk(l2) if isinstance(n_, ast.Assign) for t_ in n_.targets if isinstance(t_, ast.Attribute) and isinstance(t_.value, ast.Name) and t_.value.id in tgt2
                      and t_.attr in ("operand", "code_pkg", "instruction", "mnemonic", "original_operand")]
            if uses and writes:
                c.finding("translate_statements:whole-program-directive", "`%s`, collected over all statements, rewrites every statement (%s)" % (uses[0], U(writes[0])[:40]),
                          "translate_statements collects `%s` in a loop over the whole program and a later loop uses it to replace `%s` of each statement: the last occurrence governs the "
                          "statements BEFORE it too, so appending lines to a program changes the bytes of the lines already there" % (uses[0], U(writes[0].targets[0])), repo.loc(fn, l2))
    # every statement gets an address, the ones that emit nothing too: labels on them are ordinary labels, and the back-patch reads the address of whatever statement
    # a label marks
    for phase_ in ("address assignment", "translation", "symbol resolution", "address fix-up"):
        if phase_ not in pos or not isinstance(pos[phase_][1], ast.For):
            continue
        st_ = pos[phase_][1]
        skips_ = []

        def scan(stmts, guards):
            for x in stmts:
                if isinstance(x, ast.Continue) and guards:
                    skips_.append(guards[-1])
                elif isinstance(x, ast.If):
                    scan(x.body, guards + [x])
                    scan(x.orelse, guards + [x])
                elif isinstance(x, ast.Try):
                    scan(x.body, guards)
        scan(st_.body, [])
        skips_ = [g_ for g_ in skips_ if re.search(r"instruction|mnemonic|is_pseudo|operand", U(g_.test))]
        if skips_:
            c.finding("translate_statements:%s:skips" % phase_, "the %s pass skips statements (%s)" % (phase_, U(skips_[0].test)[:50]),
                      "the %s pass does `continue` when `%s`: those statements keep no address / are not translated, so a label on one of them has no value and every operand that "
                      "names it is emitted without its address bytes" % (phase_, U(skips_[0].test)[:70]), repo.loc(fn, skips_[0]))
    # LAY-2 address pass
    if "address assignment" in pos:
        st = pos["address assignment"][1]
        i = pos["address assignment"][0]
        init = body[i - 1] if i > 0 else None
        addr_var = None
        if isinstance(st, ast.For):
            steps = []
            flat = []
            for s in st.body:
                if isinstance(s, ast.Try) and not s.orelse and not s.finalbody:
                    flat += s.body          # a wrapper that converts exceptions does not change the pass
                else:
                    flat.append(s)
            for s in flat:
                if isinstance(s, ast.Expr) and isinstance(s.value, ast.Call) and U(s.value.func) in ("print", "logging.debug", "logging.info"):
                    continue
                if isinstance(s, ast.Assign) and isinstance(s.value, ast.Call) and U(s.value.func).endswith(".set_address"):
                    addr_var = U(s.targets[0])
                    steps.append(("set", U(s.value.args[0]) if s.value.args else None))
                elif isinstance(s, ast.AugAssign) and isinstance(s.op, ast.Add):
                    steps.append(("add", U(s.target), U(s.value)))
                else:
                    steps.append(("other", U(s)))
            good = len(steps) == 2 and steps[0] == ("set", addr_var) and steps[1][0] == "add" and steps[1][1] == addr_var and \
                re.fullmatch(r"\w+\.code_pkg\.size", steps[1][2]) is not None
            adds = [x for x in steps if x[0] == "add"]
            if good:
                c.ok("translate_statements:address-pass", "address = set_address(address); address += code_pkg.size", repo.loc(fn, st))
            elif len(adds) == 1 and adds[0][1] == addr_var and re.fullmatch(r"\w+\.code_pkg\.\w+|\d+", adds[0][2]) and not re.fullmatch(r"\w+\.code_pkg\.size", adds[0][2]):
                c.finding("translate_statements:address-pass", "address advances by %s" % adds[0][2],
                          "the address pass advances the running address by %s; a statement occupies exactly code_pkg.size bytes" % adds[0][2], repo.loc(fn, st))
            elif any(x[0] == "set" for x in steps) and any(x[0] == "add" for x in steps) and [x[0] for x in steps if x[0] in ("set", "add")] != ["set", "add"]:
                c.finding("translate_statements:address-pass", "steps in order %s" % [x[0] for x in steps], "the address pass advances the address before assigning it", repo.loc(fn, st))
            else:
                c.undecided("translate_statements:address-pass", "shape-not-recognised", str(steps)[:120], repo.loc(fn, st))
            j = i - 1
            while j > 0 and isinstance(body[j], ast.Expr):
                j -= 1
            init = body[j] if j >= 0 else None
            init_ok = isinstance(init, ast.Assign) and U(init.targets[0]) == addr_var and try_fold(init.value, ctx.env) == 0
            if init_ok:
                c.ok("translate_statements:address-init", "starts at 0", repo.loc(fn, st))
            elif isinstance(init, ast.Assign) and U(init.targets[0]) == addr_var and isinstance(try_fold(init.value, ctx.env), int):
                c.finding("translate_statements:address-init", "starts at %s" % try_fold(init.value, ctx.env), "the running address starts at %s instead of 0" % try_fold(init.value, ctx.env), repo.loc(fn, st))
            else:
                c.undecided("translate_statements:address-init", "initialisation-not-recognised", U(init)[:60] if init is not None else "", repo.loc(fn, st))
    sa = repo.method("Statement", "set_address")
    # giving a statement its address does not give it bytes: the fields the image and the listing are made from belong to translate() and the fix-up pass
    emits_ = [n_ for n_ in ast.walk(sa.node) if isinstance(n_, (ast.Assign, ast.AugAssign)) for t_ in (n_.targets if isinstance(n_, ast.Assign) else [n_.target])
              if re.fullmatch(r"self\.code_pkg\.(additional|op_code|post_byte|size|max_size)", U(t_))]
    if emits_:
        c.finding("Statement.set_address:emits", "the address pass writes %s" % U(emits_[0].targets[0] if isinstance(emits_[0], ast.Assign) else emits_[0].target),
                  "Statement.set_address does `%s`: a statement acquires bytes (or another size) while addresses are being handed out - ORG and the other directives that emit nothing "
                  "then contribute to the image, and the sizes the earlier passes agreed on no longer hold" % U(emits_[0])[:70], repo.loc(sa, emits_[0]))
    else:
        c.ok("Statement.set_address:emits", "the address pass leaves the emitted fields alone", repo.loc(sa, sa.node))
    guards_sa = [n for n in ast.walk(sa.node) if isinstance(n, ast.If)]
    for gnode in guards_sa:
        t_ = gnode.test
        inner = t_.operand if isinstance(t_, ast.UnaryOp) and isinstance(t_.op, ast.Not) else t_
        if isinstance(inner, ast.Attribute) and inner.attr == "int" or (isinstance(inner, ast.Compare) and U(inner.left).endswith(".int") and try_fold(inner.comparators[0]) == 0):
            c.finding("Statement.set_address:preset-test", "preset address recognised by the truthiness of its value (%s)" % U(t_),
                      "Statement.set_address decides whether an address was already set (ORG) by `%s`: an ORG at $0000 is a preset address too, but is taken for 'not set'" % U(t_), repo.loc(sa, gnode))
    for n_ in ast.walk(sa.node):
        if isinstance(n_, ast.Assign) and U(n_.targets[0]).endswith("code_pkg.address") and isinstance(n_.value, ast.Call) and n_.value.args:
            a0 = n_.value.args[0]
            masked = [x for x in ast.walk(a0) if isinstance(x, ast.BinOp) and isinstance(x.op, (ast.BitAnd, ast.Mod))]
            if masked:
                c.finding("Statement.set_address:wrap", "the address is reduced before it is stored (%s)" % U(a0)[:40],
                          "Statement.set_address stores `%s`: a program that runs past $FFFF is no longer rejected, its listing addresses and labels wrap around to $0000 while the "
                          "image keeps growing" % U(a0), repo.loc(sa, n_))
    txt = U(sa.node)
    good = re.search(r"if not self\.code_pkg\.address\.is_none\(\):\s+return self\.code_pkg\.address\.int", txt) and \
        re.search(r"self\.code_pkg\.address = NumericValue\(address\)\s+return self\.code_pkg\.address\.int", txt)
    if good:
        c.ok("Statement.set_address", "keeps a preset address (ORG), else takes the running address and returns it", repo.loc(sa, sa.node))
    else:
        c.undecided("Statement.set_address", "shape-unknown", "", repo.loc(sa, sa.node))
    # back-patch
    if "symbol back-patch" in pos:
        st = pos["symbol back-patch"][1]
        t = U(st)
        good = re.search(r"if value\.is_address\(\):\s+self\.symbol_table\[symbol\] = self\.statements\[value\.int\]\.code_pkg\.address", t) is not None
        # every label gets its address, the labels of statements that emit nothing too (ORG, END, RMB 0 ...): a test on the statement's size or kind leaves some with their index
        partial = [n_ for n_ in ast.walk(st) if isinstance(n_, ast.If) and re.search(r"code_pkg\.(size|max_size)|\.instruction\.|\.mnemonic|is_pseudo", U(n_.test))
                   and any(isinstance(x, ast.Assign) and "symbol_table" in U(x.targets[0]) for x in ast.walk(n_))]
        if partial:
            c.finding("translate_statements:back-patch", "only some labels get their address (%s)" % U(partial[0].test)[:50],
                      "the back-patch stores a label's address only when `%s`: a label on a statement that fails the test keeps the statement INDEX as its value, which the symbol table "
                      "prints and every reference to it encodes" % U(partial[0].test)[:70], repo.loc(fn, partial[0]))
        elif good:
            c.ok("translate_statements:back-patch", "label -> address of the statement it indexes", repo.loc(fn, st))
        else:
            c.undecided("translate_statements:back-patch", "shape-unknown", t[:80], repo.loc(fn, st))
    # LAY-4 origin
    if "origin/name" in pos:
        st = pos["origin/name"][1]
        has_guard = any(isinstance(n, ast.Raise) for n in ast.walk(st))
        sa_guard = any(isinstance(n, ast.Raise) for n in ast.walk(sa.node))
        if not has_guard and not sa_guard:
            c.finding("translate_statements:origin", "a later ORG / code before ORG is neither rejected nor laid out",
                      "Program takes the last ORG as the origin of the whole image and never rejects or pads: NOP / ORG $1000 / NOP gives image 12 12 at origin $1000 "
                      "while the listing shows the first byte at $0000", repo.loc(fn, st))
        else:
            c.ok("translate_statements:origin", "origin conflicts are rejected", repo.loc(fn, st))


def lay0(ctx, c):
    """LAY-0 Program.parse keeps every statement of its input, in order."""
    repo = ctx.repo
    fn = repo.method("Program", "parse")
    where = repo.loc(fn, fn.node)
    params = [p for p in fn.params if p not in ("self", "cls")]
    loops = [n for n in body_without_doc(fn.node) if isinstance(n, ast.For)]
    if len(loops) != 1:
        c.undecided("Program.parse", "loop-not-found", "", where)
        return
    lp = loops[0]
    c.check(U(lp.iter) == params[0], "Program.parse:iteration", "iterates every line it was given", "iterates %s" % U(lp.iter), "Program.parse iterates %s" % U(lp.iter), repo.loc(fn, lp))
    exits = [n for n in ast.walk(lp) if isinstance(n, (ast.Break, ast.Return))]
    c.check(not exits, "Program.parse:complete", "no early exit from the line loop", "the loop can stop early (%s at line %d)" % (type(exits[0]).__name__ if exits else "", exits[0].lineno if exits else 0),
            "Program.parse can stop before the end of its input: statements after that point are dropped although they belong to the program (parse is applied per file, so an included file is cut differently from the spliced text)",
            repo.loc(fn, exits[0] if exits else lp))
    appends = [n for n in ast.walk(lp) if isinstance(n, ast.Call) and isinstance(n.func, ast.Attribute) and n.func.attr == "append"]
    conds = [U(n.test) for n in ast.walk(lp) if isinstance(n, ast.If)]
    good = len(appends) == 1 and all(re.fullmatch(r"not \w+\.is_empty and \(?not \w+\.is_comment_only\)?", t) for t in conds)
    if good:
        c.ok("Program.parse:filter", "keeps every statement that is neither empty nor a comment", repo.loc(fn, lp))
    else:
        c.undecided("Program.parse:filter", "filter-shape-unknown", str(conds), repo.loc(fn, lp))
    ctor = [n for n in ast.walk(lp) if isinstance(n, ast.Call) and U(n.func) == "Statement"]
    c.check(len(ctor) == 1 and [U(a) for a in ctor[0].args] == [U(lp.target)], "Program.parse:statement", "Statement(line) for the line itself", "constructs %s" % [U(x) for x in ctor],
            "Program.parse does not build each Statement from the line as given", repo.loc(fn, lp))
    # no write-back into the caller's list is DET-4's business


def lay3(ctx, c):
    """LAY-3 duplicate labels: every store into the symbol table is dominated by the redefinition check."""
    repo = ctx.repo
    fn = repo.method("Program", "save_symbol")
    where = repo.loc(fn, fn.node)
    g = CFG(fn.node)
    stores = g.find(lambda k, n: k == "stmt" and isinstance(n, ast.Assign) and isinstance(n.targets[0], ast.Subscript) and U(n.targets[0].value) == "self.symbol_table")
    guards = g.find(lambda k, n: k == "test" and isinstance(n, ast.Compare) and isinstance(n.ops[0], ast.In) and U(n.comparators[0]) == "self.symbol_table")
    c.floor("symbol table stores", len(stores), 1)
    for s in stores:
        node = g.nodes[s][2]
        key = U(node.targets[0].slice)
        ok = False
        for gd in guards:
            gnode = g.nodes[gd][2]
            if U(gnode.left) != key:
                continue
            if s not in g.reachable(avoid_edges=[(gd, False)]) and g.only_raises_after(gd, True):
                ok = True
        c.check(ok, "save_symbol:store(%s)" % U(node.value)[:30], "dominated by `%s in symbol_table -> raise`" % key, "store not dominated by the redefinition check",
                "Program.save_symbol stores %s without first passing the `label in symbol_table` check: a label defined twice is accepted and the later definition wins"
                % U(node)[:70], repo.loc(fn, node))
    # a symbol is its whole name: a key (at the definition, or at the look-up in Value.get_symbol) that is a slice / case-folded / stripped form of the label makes
    # different labels one symbol, so whether a program assembles depends on how its labels are spelled
    def coarse_key(f_, key_expr):
        srcs = [key_expr] + [b_.value for b_ in ast.walk(f_.node) if isinstance(b_, ast.Assign) and any(U(t_) == U(key_expr) for t_ in b_.targets)]
        return [x for e_ in srcs for x in ast.walk(e_) if (isinstance(x, ast.Subscript) and isinstance(x.slice, ast.Slice))
                or (isinstance(x, ast.Call) and isinstance(x.func, ast.Attribute) and x.func.attr in ("upper", "lower", "casefold", "strip", "lstrip", "rstrip", "replace", "split", "partition", "title"))]
    gsm = repo.method("Value", "get_symbol")
    gs_params = [p_ for p_ in gsm.params if p_ not in ("self", "cls")]
    sites_ = [(fn, g.nodes[s_][2].targets[0].slice) for s_ in stores]
    sites_ += [(gsm, x.slice) for x in ast.walk(gsm.node) if isinstance(x, ast.Subscript) and isinstance(x.ctx, ast.Load) and gs_params and U(x.value) == gs_params[-1]]
    sites_ += [(gsm, x.args[0]) for x in ast.walk(gsm.node) if isinstance(x, ast.Call) and isinstance(x.func, ast.Attribute) and x.func.attr == "get" and x.args and gs_params and U(x.func.value) == gs_params[-1]]
    ck_ = [(f_, k_, coarse_key(f_, k_)) for f_, k_ in sites_]
    hit_ = next(((f_, k_, cz) for f_, k_, cz in ck_ if cz), None)
    if hit_:
        c.finding("symbol-table:key", "symbols are keyed by %s" % U(hit_[2][0])[:50],
                  "%s uses `%s` as the symbol-table key: labels that agree in that part of their name are one symbol (a redefinition error, or a reference to the wrong one), so a program "
                  "that assembles stops assembling - or changes meaning - under a consistent renaming of its labels" % (hit_[0].q, U(hit_[2][0])[:60]), repo.loc(hit_[0], hit_[1]))
    elif ck_:
        c.ok("symbol-table:key", "symbols are keyed by their whole name at %d sites" % len(ck_), where)
    # the symbol listing shows every symbol whatever it is called: one filtered by its spelling disappears from the output under a renaming
    gst = repo.cls("Program").methods.get("get_symbol_table")
    if gst is not None:
        filt = [n for n in ast.walk(gst.node) if (isinstance(n, ast.If) and any(isinstance(x, ast.Continue) for x in n.body)) or
                (isinstance(n, ast.comprehension) and n.ifs)]
        tests_ = [U(n.test) if isinstance(n, ast.If) else U(n.ifs[0]) for n in filt]
        by_name = [t_ for t_ in tests_ if re.search(r"startswith|endswith|\[0\]|\bin\b|isupper|islower|len\(|match|==", t_) and not re.search(r"is_address|is_numeric|\.type\b", t_)]
        if by_name:
            c.finding("get_symbol_table:every-symbol", "symbols are left out of the listing by name (%s)" % by_name[0][:40],
                      "Program.get_symbol_table skips a symbol when `%s`: such names are ordinary labels to the rest of the assembler, so renaming a label consistently changes what the "
                      "symbol table shows" % by_name[0][:60], repo.loc(gst, filt[0] if isinstance(filt[0], ast.If) else gst.node))
        else:
            c.ok("get_symbol_table:every-symbol", "every symbol is listed", repo.loc(gst, gst.node))
    # EQU symbols take the operand's value, labels the statement index
    for n in ast.walk(fn.node):
        if isinstance(n, ast.If) and "is_pseudo_define" in U(n.test) and n.orelse:
            a = [U(x.value) for x in n.body if isinstance(x, ast.Assign)]
            b = [U(x.value) for x in n.orelse if isinstance(x, ast.Assign)]
            neg = isinstance(n.test, ast.UnaryOp)
            if neg:
                a, b = b, a
            c.check(a == ["statement.operand.value"] and b == ["AddressValue(index)"], "save_symbol:values", "EQU -> operand value, label -> AddressValue(index)", "EQU -> %s, label -> %s" % (a, b),
                    "save_symbol stores %s for an EQU symbol and %s for a label" % (a, b), repo.loc(fn, n))
    # label -> AddressValue(index) for ordinary statements
    txt = U(fn.node)
    if re.search(r"self\.symbol_table\[label\] = AddressValue\(index\)", txt):
        c.ok("save_symbol:label", "label -> AddressValue(statement index)", where)
    else:
        c.undecided("save_symbol:label", "shape-unknown", "", where)
    # undefined symbols are rejected: get_symbol raises on a missing key
    gs = repo.method("Value", "get_symbol")
    gg = CFG(gs.node)
    rets = gg.find(lambda k, n: k == "return")
    tests = gg.find(lambda k, n: k == "test" and "not in" in U(n))
    ok = bool(tests) and all(r not in gg.reachable(avoid_edges=[(t, False) for t in tests]) for r in rets) and all(gg.only_raises_after(t, True) for t in tests)
    has_raise = any(isinstance(x, ast.Raise) for x in ast.walk(gs.node))
    uses_get = any(isinstance(x, ast.Call) and isinstance(x.func, ast.Attribute) and x.func.attr == "get" for x in ast.walk(gs.node))
    gparams = [p_ for p_ in gs.params if p_ not in ("self", "cls")]
    tbl_name = gparams[1] if len(gparams) > 1 else "symbol_table"
    foreign = [n for n in ast.walk(gs.node) if isinstance(n, ast.Return) and n.value is not None and tbl_name not in U(n.value)]
    if foreign:
        c.finding("Value.get_symbol:source", "a name is resolved from something other than the program's symbol table (%s)" % U(foreign[0].value)[:50],
                  "Value.get_symbol returns `%s` without consulting %s: a label of the program with that name is defined (save_symbol records it) but every reference to it gets "
                  "the other value" % (U(foreign[0].value)[:60], tbl_name), repo.loc(gs, foreign[0]))
    if ok:
        c.ok("Value.get_symbol", "missing symbol -> raise", repo.loc(gs, gs.node))
    elif not has_raise:
        c.finding("Value.get_symbol", "lookup without a missing-key raise", "Value.get_symbol returns without rejecting an undefined symbol (no raise%s)" % (", .get() default" if uses_get else ""), repo.loc(gs, gs.node))
    else:
        c.undecided("Value.get_symbol", "shape-not-recognised", "", repo.loc(gs, gs.node))


OPS = {"+": ast.Add, "-": ast.Sub, "*": ast.Mult, "/": (ast.Div, ast.FloorDiv)}


def exp1(ctx, c):
    """EXP-1 operator table and operand order; both operands looked up; EXP-2 inconsistent returns."""
    repo = ctx.repo
    fn = repo.method("ExpressionValue", "resolve", inherited=False)
    where = repo.loc(fn, fn.node)
    # local bindings left = self.left.int etc.
    binds = {}
    for n in ast.walk(fn.node):
        if isinstance(n, ast.Assign) and isinstance(n.targets[0], ast.Name) and re.fullmatch(r"self\.(left|right)\.int", U(n.value)):
            binds[n.targets[0].id] = U(n.value).split(".")[1]
        if isinstance(n, ast.Assign) and isinstance(n.targets[0], ast.Tuple) and isinstance(n.value, ast.Tuple) and len(n.targets[0].elts) == len(n.value.elts):
            for e_, v_ in zip(n.targets[0].elts, n.value.elts):
                if isinstance(e_, ast.Name) and re.fullmatch(r"self\.(left|right)\.int", U(v_)):
                    binds[e_.id] = U(v_).split(".")[1]
    arms = {}
    for n in ast.walk(fn.node):
        if isinstance(n, ast.If) and isinstance(n.test, ast.Compare) and U(n.test.left) == "self.operation" and isinstance(n.test.ops[0], ast.Eq):
            op = try_fold(n.test.comparators[0])
            bo = [x for x in ast.walk(n.body[0]) if isinstance(x, ast.BinOp) and isinstance(x.left, ast.Name) and isinstance(x.right, ast.Name)]
            if op in OPS and bo:
                arms[op] = (type(bo[0].op), binds.get(bo[0].left.id, bo[0].left.id), binds.get(bo[0].right.id, bo[0].right.id), n)
    if not arms:
        # a table of operator -> lambda
        for d in [n for n in ast.walk(fn.module.tree) if isinstance(n, ast.Dict) and n.keys and all(isinstance(k, ast.Constant) and k.value in OPS for k in n.keys)]:
            for k, v in zip(d.keys, d.values):
                if isinstance(v, ast.Lambda) and len(v.args.args) == 2:
                    bo = [x for x in ast.walk(v.body) if isinstance(x, ast.BinOp) and isinstance(x.left, ast.Name) and isinstance(x.right, ast.Name)]
                    if bo:
                        pn = [a_.arg for a_ in v.args.args]
                        arms[k.value] = (type(bo[0].op), "left" if bo[0].left.id == pn[0] else "right", "right" if bo[0].right.id == pn[1] else "left", ast.If(test=k, body=[ast.Expr(value=v.body)], orelse=[], lineno=d.lineno))
    if not arms:
        c.undecided("ExpressionValue.resolve", "operator-dispatch-not-recognised", "", where)
    for op, want in (OPS.items() if arms else []):
        if op not in arms:
            c.finding("ExpressionValue.resolve:%s" % op, "operator has no arm", "ExpressionValue.resolve has no arm for operator %s" % op, where)
            continue
        t, l, r, node = arms[op]
        okop = t in want if isinstance(want, tuple) else t is want
        if {l, r} - {"left", "right"}:
            c.undecided("ExpressionValue.resolve:%s" % op, "operands-of-the-arm-not-traced-to-left/right", "%s %s %s" % (l, t.__name__, r), repo.loc(fn, node))
            continue
        c.check(okop and (l, r) == ("left", "right"), "ExpressionValue.resolve:%s" % op, "left %s right" % op, "computes %s %s %s" % (l, t.__name__, r),
                "for operator %s ExpressionValue.resolve computes %s %s %s" % (op, l, t.__name__, r), repo.loc(fn, node))
    c.floor("operator arms", len(arms), 4)
    # truncating division: int(a / b) or a // b
    if "/" in arms:
        node = arms["/"][3]
        div = [x for x in ast.walk(node.body[0]) if isinstance(x, ast.BinOp) and isinstance(x.op, (ast.Div, ast.FloorDiv))][0]
        if isinstance(div.op, ast.FloorDiv):
            c.ok("ExpressionValue.resolve:/:truncation", "floor division of non-negative operands", repo.loc(fn, node))
        else:
            wrapped = any(isinstance(x, ast.Call) and U(x.func) == "int" and x.args and x.args[0] is div for x in ast.walk(node.body[0]))
            c.check(wrapped, "ExpressionValue.resolve:/:truncation", "int(left / right)", "quotient used as %s" % U(node.body[0].value)[:60],
                    "the quotient is not truncated with int(): %s rounds or keeps a fraction (7/2 must be 3)" % U(node.body[0].value)[:80], repo.loc(fn, node))
    # a division divides by the operand itself: a divisor patched with `or 1`, a conditional or max() turns X/0 into a number
    for m in repo.cls("ExpressionValue").methods.values():
        for x in ast.walk(m.node):
            if isinstance(x, ast.BinOp) and isinstance(x.op, (ast.Div, ast.FloorDiv)):
                d = x.right
                masked = isinstance(d, (ast.BoolOp, ast.IfExp)) or (isinstance(d, ast.Call) and U(d.func) in ("max", "abs") and len(d.args) > 1)
                site = "%s:divisor" % m.q
                if masked:
                    c.finding(site, "division by zero masked: divides by %s" % U(d), "%s divides by `%s`: a zero divisor is silently replaced, so X/0 assembles to a number "
                              "instead of being diagnosed" % (m.q, U(d)), repo.loc(m, x))
                elif isinstance(d, (ast.Name, ast.Attribute)):
                    c.ok(site, "divides by the operand itself", repo.loc(m, x))
    # reductions modulo N: only powers of two that are field sizes
    vmod = repo.cls("ExpressionValue").module
    for f in [x for x in repo.all_funcs() if x.module.rel in (vmod.rel, "cocoasm/statement.py", "cocoasm/operands.py", "cocoasm/program.py")]:
        for x in ast.walk(f.node):
            if isinstance(x, ast.BinOp) and isinstance(x.op, ast.Mod) and not isinstance(x.left, ast.Constant):
                k = try_fold(x.right, ctx.env)
                if isinstance(k, int) and k not in (2, 0x100, 0x10000):
                    c.finding("%s:modulus" % f.q, "reduces modulo %#x" % k,
                              "%s reduces a value modulo %#x; 8- and 16-bit quantities wrap modulo 0x100 and 0x10000 (modulo %#x maps %d to 0 and shifts everything above)" % (f.q, k, k, k),
                              repo.loc(f, x))
            if isinstance(x, ast.BinOp) and isinstance(x.op, ast.BitAnd):
                k = try_fold(x.right, ctx.env)
                if isinstance(k, int) and k > 0x1F and (k & (k + 1)) != 0 and k not in (0xC0, 0x60, 0x80):
                    c.undecided("%s:mask" % f.q, "mask %#x is not of the form 2^n - 1" % k, "", repo.loc(f, x))
    # sibling arms: the four operator arms of calculate_address_offset build their result the same way (a 16-bit extended value); an arm that leaves the width to the
    # magnitude gives label-n a one-byte rendering whenever the result is below $100, so the size of a statement changes with the origin
    cao = repo.cls("ExpressionValue").methods.get("calculate_address_offset")
    if cao is not None:
        ctor_calls = [x for x in ast.walk(cao.node) if isinstance(x, ast.Call) and U(x.func).endswith("NumericValue") and x.args
                      and any(isinstance(y, ast.BinOp) for y in ast.walk(x.args[0]))]
        kwsets = {}
        for x in ctor_calls:
            kwsets.setdefault(tuple(sorted((k.arg, U(k.value)) for k in x.keywords if k.arg)), []).append(x)
        if len(kwsets) > 1:
            major = max(kwsets.items(), key=lambda kv: len(kv[1]))[0]
            odd = next(v_[0] for k_, v_ in kwsets.items() if k_ != major)
            c.finding("calculate_address_offset:arms-agree", "one arm builds its result differently (%s)" % U(odd)[:50],
                      "calculate_address_offset returns `%s` in one operator arm while the other arms pass %s: that arm's result takes its width from its magnitude, so label-n below $100 is "
                      "rendered in one byte and the instruction that uses it changes size when the program is moved" % (U(odd)[:70], dict(major)), repo.loc(cao, odd))
        elif ctor_calls:
            c.ok("calculate_address_offset:arms-agree", "every operator arm builds its result with the same width and mode", repo.loc(cao, cao.node))
    # the result of an expression has the width its value needs: a width stored on the expression (the instruction's 16-bit hint) is right for an immediate operand and
    # wrong for the same expression used as an index offset, where it puts two bytes behind an 8-bit post byte
    rsv = repo.cls("ExpressionValue").methods.get("resolve")
    if rsv is not None:
        pinned = [x for x in ast.walk(rsv.node) if isinstance(x, ast.Call) and U(x.func).endswith("NumericValue") for k in x.keywords
                  if k.arg == "size_hint" and re.fullmatch(r"self\.\w+", U(k.value))]
        if pinned:
            c.finding("ExpressionValue.resolve:stored-width", "the result is given a width stored on the expression (%s)" % U(pinned[0])[:50],
                      "ExpressionValue.resolve builds its result as `%s`: the width comes from where the expression was created (the instruction's 16-bit hint), not from the value, so "
                      "`LDX P+Q,X` with small constants emits a two-byte offset behind the 8-bit post byte" % U(pinned[0])[:70], repo.loc(rsv, pinned[0]))
    # `cond and a or b` is not `a if cond else b`: it yields b whenever a is falsy - and a statement index or a constant can be 0 (a label on the first line, FIELD EQU 0)
    for m_ in repo.cls("ExpressionValue").methods.values():
        for x in ast.walk(m_.node):
            if isinstance(x, ast.BoolOp) and isinstance(x.op, ast.Or) and len(x.values) == 2 and isinstance(x.values[0], ast.BoolOp) and isinstance(x.values[0].op, ast.And) \
                    and re.search(r"\.int$|\.int\)$", U(x.values[0].values[-1])) and re.search(r"\.is_\w+\(\)", U(x.values[0].values[0])):
                c.finding("%s:and-or" % m_.q, "`%s` yields the other term when the chosen one is 0" % U(x)[:50],
                          "%s computes `%s`: when the predicate holds and the value it selects is 0 (a label on statement 0, a constant 0) the expression falls through to the other operand, "
                          "so label+constant evaluates to the wrong address" % (m_.q, U(x)[:70]), repo.loc(m_, x))
    # ExpressionValue.resolve evaluated for every operator x (symbol | literal) on either side: both symbols are looked up under their own names,
    # the result is NumericValue(left op right) with truncating division, at a width the result fits
    from ..concrete import Obj as _O, ClsRef as _C, Desc as _D, run_concrete as _run, show as _show
    from ..inline import flatten as _flx
    flat_res = _flx(repo, fn, depth=2, only={m_ for m_ in repo.cls("ExpressionValue").methods if m_ not in ("get_symbol",)})
    preds = {m_ for cl_ in ("Value", "NumericValue", "SymbolValue", "ExpressionValue") if repo.has_cls(cl_) for m_ in repo.cls(cl_).methods if m_.startswith("is_")}
    evaluated = 0
    ev_problems = []
    ev_notes = []
    for opch, pyop in (("+", lambda a, b: a + b), ("-", lambda a, b: a - b), ("*", lambda a, b: a * b), ("/", lambda a, b: int(a / b))):
        for lk, rk, lv, rv in [(lk_, rk_, 300, 7) for lk_ in ("symbol", "numeric") for rk_ in ("symbol", "numeric")] + [("numeric", "numeric", 7, 300), ("symbol", "symbol", 16, 32), ("numeric", "symbol", 300, 0)]:
            if rv == 0 and opch == "/":
                continue        # decided by EXP-2 (division by zero)
            if True:

                def mk(kind, name, value):
                    o = _O("SymbolValue" if kind == "symbol" else "NumericValue", label="<%s %s>" % (kind, name))
                    o.attrs.update({"kind": kind, "name": name, "int": value})
                    return o
                lo_, ro_ = mk(lk, "L", lv), mk(rk, "R", rv)
                table = {"L": mk("numeric", "value-of-L", lv), "R": mk("numeric", "value-of-R", rv)}
                hooks = {("*", p_): (lambda r, a, _p=p_: (r.attrs.get("kind") == {"is_symbol": "symbol", "is_numeric": "numeric"}.get(_p)) if _p in ("is_symbol", "is_numeric") else False)
                         for p_ in preds}
                hooks[("*", "ascii")] = lambda r, a: r.attrs.get("name")
                hooks[("self", "get_symbol")] = lambda a: table.get(a[0], _D("get_symbol(%r)" % (a[0],))) if a and isinstance(a[0], str) and not isinstance(a[0], _D) else _D("get_symbol(?)")
                hooks[("cls", "get_symbol")] = hooks[("self", "get_symbol")]
                hooks[("ExpressionValue", "get_symbol")] = hooks[("self", "get_symbol")]
                hooks[("Value", "get_symbol")] = hooks[("self", "get_symbol")]
                envx = dict(ctx.env)
                for cn in ("NumericValue", "ExtendedNumericValue", "DirectNumericValue", "AddressValue"):
                    envx[cn] = _C(cn)
                envx.update({"self.left": lo_, "self.right": ro_, "self.operation": opch, "self.original_value": "L%sR" % opch, "self.resolved": False})
                evs, nts = [], []
                def _res_exp(name_):
                    f_ = repo.lookup(repo.cls("ExpressionValue"), name_)
                    return f_.node if f_ is not None and name_ != "get_symbol" else None
                end = _run(body_without_doc(flat_res), envx, evs, nts, hooks=hooks, workers=("get_symbol",), resolver=_res_exp)
                evaluated += 1
                ev_notes += nts
                want = pyop(lv, rv)
                looked = [e[4][0] for e in evs if e[0] == "call" and e[2] == "get_symbol" and e[4] and e[1] in ("self", "cls", "ExpressionValue", "Value")]
                want_looked = (["L"] if lk == "symbol" else []) + (["R"] if rk == "symbol" else [])
                site_cfg = "%s %s %s" % (lk, opch, rk)
                if looked != want_looked:
                    ev_problems.append(("lookups", "for %s the symbols looked up are %s (operands L and R, symbols: %s)" % (site_cfg, looked, want_looked)))
                    continue
                res = envx.get("$return")
                if not (isinstance(res, _O) and res.cls.endswith("NumericValue") and getattr(res, "args", None)):
                    if end and end.startswith("raise"):
                        ev_problems.append(("result", "%s ends in %s" % (site_cfg, end)))
                    else:
                        ev_notes.append("result of %s is %s" % (site_cfg, _show(res)))
                    continue
                a0 = res.args[0]
                got = int(a0) if isinstance(a0, str) and not isinstance(a0, _D) and a0.lstrip("-").isdigit() else (a0 if isinstance(a0, int) else None)
                if got is None:
                    ev_notes.append("the result of %s is built from %s, which was not evaluated" % (site_cfg, _show(a0)[:50]))
                    continue
                if got != want:
                    ev_problems.append(("value:%s" % opch, "%d %s %d gives %s (expected %d)" % (lv, opch, rv, _show(a0), want)))
                hint = res.attrs.get("size_hint")
                if isinstance(hint, int) and want >= 0 and 16 ** hint <= want:
                    ev_problems.append(("width", "the result %d of %d %s %d is pinned to %d hex digit(s)" % (want, lv, opch, rv, hint)))
    resolved_by_evaluation = not ev_notes
    if resolved_by_evaluation:
        seenp = set()
        for kind_, text_ in ev_problems:
            if kind_ in seenp:
                continue
            seenp.add(kind_)
            c.finding("ExpressionValue.resolve:%s" % kind_, text_[:110], "ExpressionValue.resolve, evaluated for operand kinds and operators: %s" % text_, where)
        for kind_ in ("lookups", "width"):
            if kind_ not in seenp:
                c.ok("ExpressionValue.resolve:%s" % kind_, "decided by evaluation of %d configurations" % evaluated, where)
    # both operands are looked up when both are symbols
    try:
        if resolved_by_evaluation:
            raise PathCap("decided above")
        outs = Interp(fn.node).run()
        both = [o for o in outs if "self.left.is_symbol()" in o.path.true_atoms()]
        tested_right = [o for o in both if any(strip_ver(a).startswith("self.right.is_symbol()") for a, _ in o.path.conds)]
        if not both:
            raise PathCap("no path with a symbol on the left was recognised")
        c.check(bool(both) and len(both) == len(tested_right), "ExpressionValue.resolve:lookups", "left and right are looked up independently",
                "%d of %d paths with a symbol on the left never look at the right operand" % (len(both) - len(tested_right), len(both)),
                "when the left operand is a symbol, ExpressionValue.resolve does not look up a symbol on the right (label+CONST is computed with CONST unresolved)", where)
        for side in ("left", "right"):
            srcs = set()
            for n in ast.walk(fn.node):
                if isinstance(n, ast.Assign) and U(n.targets[0]) == "self.%s" % side and isinstance(n.value, ast.Call) and U(n.value.func) == "self.get_symbol":
                    srcs.add(U(n.value.args[0]))
            if not srcs:
                c.undecided("ExpressionValue.resolve:lookup-%s" % side, "look-up-not-recognised", "", where)
                continue
            c.check(srcs == {"self.%s.ascii()" % side}, "ExpressionValue.resolve:lookup-%s" % side, "looked up by its own name", "looked up by %s" % sorted(srcs),
                    "the %s operand is replaced by the symbol named %s" % (side, sorted(srcs)), where)
    except PathCap as e:
        if not resolved_by_evaluation:
            c.undecided("ExpressionValue.resolve:lookups", "path-cap", str(e), where)
    # division by zero inside resolve is wrapped by the statement-level handler (ESC covers); calculate_address_offset
    cao = repo.method("ExpressionValue", "calculate_address_offset", inherited=False)
    t = U(cao.node)
    wc = repo.loc(cao, cao.node)
    if re.search(r"address_index = self\.left\.int if self\.left\.is_address\(\) else self\.right\.int", t) and \
            re.search(r"additional_value = self\.left\.int if self\.left\.is_numeric\(\) else self\.right\.int", t):
        c.finding("calculate_address_offset:operands", "address and constant are picked regardless of side; a second label's statement index is read as its value",
                  "calculate_address_offset computes `address OP other` whichever side the label is on (1-L gives L-1) and reads the other operand's .int even when it is a label "
                  "(M-L gives addr(M) - index(L))", wc)
    else:
        c.undecided("calculate_address_offset:operands", "shape-changed", "", wc)
    arms2 = {}
    for n in ast.walk(cao.node):
        if isinstance(n, ast.If) and isinstance(n.test, ast.Compare) and U(n.test.left) == "self.operation":
            op = try_fold(n.test.comparators[0])
            bo = [x for x in ast.walk(n.body[0]) if isinstance(x, ast.BinOp) and not isinstance(x.op, ast.Mod)]
            if bo:
                arms2[op] = type(bo[0].op)
            if n.orelse and not isinstance(n.orelse[0], ast.If):
                bo = [x for x in ast.walk(n.orelse[0]) if isinstance(x, ast.BinOp)]
                if bo:
                    arms2["else"] = type(bo[0].op)
    # operand order of the non-commutative operators: address OP constant
    cao = repo.method("ExpressionValue", "calculate_address_offset", inherited=False)
    addr_vars = {U(n.targets[0]) for n in ast.walk(cao.node) if isinstance(n, ast.Assign) and U(n.value).endswith(".code_pkg.address.int")}
    for x in ast.walk(cao.node):
        if isinstance(x, ast.BinOp) and isinstance(x.op, (ast.Sub, ast.Div, ast.FloorDiv)) and isinstance(x.left, ast.Name) and isinstance(x.right, ast.Name) and addr_vars:
            opn = "-" if isinstance(x.op, ast.Sub) else "/"
            if x.right.id in addr_vars and x.left.id not in addr_vars:
                c.finding("calculate_address_offset:%s:order" % opn, "computes constant %s address" % opn,
                          "calculate_address_offset computes `%s`: for LABEL%sn the label's address is the left operand, the constant the right one" % (U(x), opn), repo.loc(cao, x))
            elif x.left.id in addr_vars:
                c.ok("calculate_address_offset:%s:order" % opn, "address %s constant" % opn, repo.loc(cao, x))
    for op, want in (("+", ast.Add), ("-", ast.Sub), ("*", ast.Mult)):
        if op in arms2:
            c.check(arms2[op] is want, "calculate_address_offset:%s" % op, want.__name__, "computes %s" % arms2[op].__name__,
                    "calculate_address_offset applies %s for operator %s" % (arms2[op].__name__, op), wc)
    if "else" in arms2:
        c.check(arms2["else"] in (ast.Div, ast.FloorDiv), "calculate_address_offset:/", "Div", "computes %s" % arms2["else"].__name__,
                "calculate_address_offset applies %s for operator /" % arms2["else"].__name__, wc)
    # EXP-2
    sv = repo.method("SymbolValue", "resolve", inherited=False)
    outs = Interp(sv.node).run()
    falls = [o for o in outs if o.kind == "fall"]
    rets = [o for o in outs if o.kind == "return"]
    # decided by evaluating resolve for a table entry of each kind: a label, a number, anything else (a string, an unresolved expression)
    from ..concrete import Obj as _Ob, ClsRef as _Cr, Desc as _Ds, run_concrete as _rcx
    ev_kind = {}
    ev_nt = []
    for kind_, int_ in (("address", 7), ("numeric", 7), ("other", 7), ("address", 0), ("numeric", 0)):
        ent = _Ob("Value", label="<%s entry>" % kind_)
        ent.attrs.update({"int": int_, "kind": kind_})
        hk = {("*", "is_address"): (lambda r, a: r.attrs.get("kind") == "address"), ("*", "is_numeric"): (lambda r, a: r.attrs.get("kind") == "numeric"),
              ("self", "get_symbol"): (lambda a, _e=ent: _e)}
        for pn in ("is_symbol", "is_expression", "is_address_expression", "is_string", "is_none"):
            hk[("*", pn)] = (lambda r, a: False)
        envs = dict(ctx.env)
        for cn in ("AddressValue", "NumericValue", "DirectNumericValue", "ExtendedNumericValue"):
            envs[cn] = _Cr(cn)
        envs.update({"self.value": "SYM"})
        evs_, nts_ = [], []

        def _dispatch(r, name, avals, _hk=hk, _nts=nts_, _envs=envs):
            # any other method called on the table entry is the one its class defines (a label is an AddressValue, a constant a NumericValue,
            # anything else stands for a string): read with the entry as `self`
            real = {"address": "AddressValue", "numeric": "NumericValue", "other": "StringValue"}.get(r.attrs.get("kind"))
            m_ = repo.method(real, name) if real and repo.has_cls(real) else None
            if m_ is None:
                _nts.append("%s.%s not found" % (real, name))
                return _Ds("%r.%s()" % (r, name))
            envm = {k: v for k, v in _envs.items() if not (isinstance(k, str) and k.startswith("self."))}
            envm.pop("$return", None)
            envm.update(dict(zip([p_ for p_ in m_.params if p_ != "self"], avals)))
            envm["self.int"] = r.attrs.get("int")
            hkm = dict(_hk)
            for pn_ in ("is_address", "is_numeric"):
                hkm[("self", pn_)] = (lambda a, _p=pn_, _r=r: _hk[("*", _p)](_r, a))
            sub_nt = []
            end_m = _rcx(body_without_doc(m_.node), envm, [], sub_nt, hooks=hkm)
            _nts.extend(sub_nt)
            if end_m and end_m.startswith("raise"):
                _nts.append("%s.%s raises" % (real, name))
            out_ = envm.get("$return")
            if isinstance(out_, _Ds) and "(" in str(out_):
                _nts.append("%s.%s returns the result of a call that is not expanded" % (real, name))
            return out_
        hk[("*", "*")] = _dispatch
        end_ = _rcx(body_without_doc(sv.node), envs, evs_, nts_, hooks=hk)
        ev_nt += nts_
        rv = envs.get("$return")
        res_ = ("raise" if (end_ or "").startswith("raise") else ("none" if (end_ is None or rv is None) else (rv.cls if isinstance(rv, _Ob) else "other")))
        if int_ == 0:
            # the statement index / the constant 0 is a value like any other
            if res_ != ev_kind.get(kind_):
                ev_kind[kind_ + " whose value is 0"] = res_
            continue
        ev_kind[kind_] = res_
    if not ev_nt:
        good_ = ev_kind.get("address") == "AddressValue" and ev_kind.get("numeric", "").endswith("NumericValue") and ev_kind.get("other") == "raise" and \
            not any(k.endswith("whose value is 0") for k in ev_kind)
        if ev_kind.get("other") == "none":
            c.finding("SymbolValue.resolve", "returns a value on some paths and None on others",
                      "SymbolValue.resolve returns None when the table entry is neither an address nor numeric (save_symbol stores the raw EQU operand, which may be a string, a symbol or an "
                      "expression): the None reaches the code package and the assembler ends in an AttributeError, also while printing the diagnostic", repo.loc(sv, sv.node))
        elif not good_:
            c.finding("SymbolValue.resolve", ", ".join("%s -> %s" % kv for kv in sorted(ev_kind.items())),
                      "SymbolValue.resolve must turn a label into an AddressValue, a number into a NumericValue and reject anything else; evaluated per kind it gives %s" % ev_kind,
                      repo.loc(sv, sv.node))
        else:
            c.ok("SymbolValue.resolve", "label -> AddressValue, number -> NumericValue, anything else raises", repo.loc(sv, sv.node))
    elif falls and rets:
        c.finding("SymbolValue.resolve", "returns a value on some paths and None on others",
                  "SymbolValue.resolve falls off the end when the table entry is neither an address nor numeric (save_symbol stores the raw EQU operand, which may be a symbol or an expression): "
                  "E EQU 5+1 / LDA #E ends in AttributeError", repo.loc(sv, sv.node))
    else:
        c.ok("SymbolValue.resolve", "consistent returns", repo.loc(sv, sv.node))
    # operand resolution of the two indexed classes must agree on what an accumulator offset is (TXT-5)
    n = 0
    opsmod = repo.cls("IndexedOperand").module
    for cls in ("IndexedOperand", "ExtendedIndexedOperand"):
        for meth in ("resolve_symbols", "translate"):
            f = repo.method(cls, meth, inherited=False)
            for node in ast.walk(f.node):
                if isinstance(node, ast.Compare) and len(node.ops) == 1 and isinstance(node.ops[0], (ast.In, ast.NotIn)):
                    rhs = node.comparators[0]
                    if isinstance(rhs, ast.Constant) and isinstance(rhs.value, str) and len(rhs.value) > 1 and "self.left" in U(node.left):
                        n += 1
                        c.finding("%s.%s:accumulator-test" % (cls, meth), "substring test %s" % U(node),
                                  "%s.%s decides whether the offset is an accumulator with `%s`, a substring test: offsets spelled %s are taken for accumulators "
                                  "(a label named AB loses its offset)" % (cls, meth, U(node), [rhs.value[i:j] for i in range(len(rhs.value)) for j in range(i + 2, len(rhs.value) + 1)]),
                                  repo.loc(f, node))
            c.ok("%s.%s:accumulator-test" % (cls, meth), "accumulator names compared as whole strings", nontrivial=False)


def dir1(ctx, c):
    """DIR-1 exhaustiveness of PseudoOperand.translate; DIR-2 widths; DIR-3 FCC; DIR-4 symbols in data."""
    repo = ctx.repo
    rows, _, mod = ctx.instructions()
    pseudo = [r for r in rows if r.flags["is_pseudo"]]
    c.floor("pseudo rows", len(pseudo), 8)
    fn = repo.method("PseudoOperand", "translate", inherited=False)
    where = repo.loc(fn, fn.node)
    # one interpretation per pseudo mnemonic (the mnemonic bound to a constant): an if-chain, a membership test, a lookup table or a helper all evaluate to the same arms
    from .enc import make_resolver as _mkres
    arms = {}
    default = None
    arms_open = None
    for r_ in pseudo + [None]:
        m_ = r_.mnemonic if r_ is not None else "?NOSUCH"
        try:
            outs_m = Interp(fn.node, consts={**ctx.env, **ctx.self_env("PseudoOperand")}, alias_paths=True, resolver=_mkres(repo, fn),
                            init_env={"self.instruction.mnemonic": Const(m_)}).run()
        except PathCap as e_:
            arms_open = str(e_)
            break
        rets_m = [o for o in outs_m if o.kind == "return"]
        if r_ is not None and m_ == "RMB":
            zr = [o for o in outs_m if o.kind == "raise" and any(re.fullmatch(r"(self\.value|count\w*|reserved\w*)(\.int)?( == 0| != 0| > 0| < 1)?", strip_ver(a)) for a, _ in o.path.conds)]
            if zr:
                c.finding("PseudoOperand.translate:RMB:zero", "a count of 0 is refused",
                          "PseudoOperand.translate raises for RMB under a test on the truth / zero-ness of the count (%s): `RMB 0` reserves no bytes and is a legal statement"
                          % [strip_ver(a) for a, _ in zr[0].path.conds][-1:], where)
        if r_ is not None and m_ in ("FCB", "FDB", "FCC", "RMB"):
            # a data directive emits as many bytes as its operand has: no length is too long (or too short) to be emitted
            lr = [(o, a) for o in outs_m if o.kind == "raise" for a, _ in o.path.conds if re.search(r"byte_len\(\)|hex_len\(\)|\blen\(", strip_ver(a))]
            if lr:
                c.finding("PseudoOperand.translate:%s:length-limit" % m_, "refused under a test on the length of the data (%s)" % strip_ver(lr[0][1])[:50],
                          "PseudoOperand.translate raises for %s under `%s`: the directive emits its operand whatever its length - a limit on it rejects a valid statement"
                          % (m_, strip_ver(lr[0][1])[:70]), where)
            else:
                c.ok("PseudoOperand.translate:%s:length-limit" % m_, "no refusal by length", where)
        if r_ is None:
            default = rets_m[0] if rets_m else None
        elif rets_m:
            arms[m_] = rets_m
    emitting = lambda o: isinstance(o.value, Ctor) and (any(k in o.value.kw for k in ("op_code", "post_byte", "additional")) or "size" in o.value.kw)
    # an arm whose result the interpreter cannot see into (built by a call through a table, a lambda, a factory) is not an arm that emits nothing
    opaque_arms = {m_ for m_, os_ in arms.items() if m_ in ("FCB", "FDB", "FCC", "RMB") and not any(emitting(o) for o in os_) and any(not isinstance(o.value, Ctor) for o in os_)}
    arms = {m_: os_ for m_, os_ in arms.items() if m_ not in ("FCB", "FDB", "FCC", "RMB") or any(emitting(o) for o in os_)}
    emitters = {"FCB", "FDB", "FCC", "RMB"}
    if arms_open:
        c.undecided("PseudoOperand.translate", "arms-not-evaluable", arms_open[:120], where)
        arms = {}
    for r in (pseudo if not arms_open else []):
        m = r.mnemonic
        site = "PseudoOperand.translate:%s" % m
        if m in emitters and m in opaque_arms:
            c.undecided(site, "arm-result-not-visible", "the arm returns the result of a call the interpreter does not expand", where)
        elif m in emitters:
            c.check(m in arms, site, "has an emitting arm", "no arm", "PseudoOperand.translate has no arm for %s: the directive emits nothing" % m, where)
        else:
            if m in arms:
                for o in arms[m]:
                    kw = o.value.kw if isinstance(o.value, Ctor) else {}
                    emits = any(k in kw for k in ("op_code", "post_byte", "additional")) or "size" in kw
                    c.check(not emits, site, "emits no bytes", "emits %s" % sorted(kw), "%s must emit no bytes, its arm returns %r" % (m, o.value), where)
                    if "address" in kw and m != "ORG":
                        # a statement that carries an address of its own is an origin to the layout pass (set_address keeps it and continues from there)
                        c.finding(site + ":address", "%s returns a package with an address of its own" % m,
                                  "PseudoOperand.translate gives %s a CodePackage(address=...): Statement.set_address treats every statement that already has an address as an ORG, so the "
                                  "location counter jumps to that value and every later statement and label is placed from there" % m, where)
            else:
                kw = default.value.kw if default is not None and isinstance(default.value, Ctor) else None
                c.check(kw == {}, site, "falls to the empty CodePackage", "default arm returns %r" % (default.value if default else None),
                        "%s falls to a default arm that is not an empty CodePackage" % m, where)
    # the empty CodePackage occupies no space: defaults size = 0 and max_size >= size (PC-relative estimates sum max_size over every statement)
    cp = repo.method("CodePackage", "__init__")
    a_ = cp.node.args
    names = [x.arg for x in a_.args]
    dmap = dict(zip(names[len(names) - len(a_.defaults):], a_.defaults))
    ds, dm = try_fold(dmap.get("size"), ctx.env) if "size" in dmap else None, try_fold(dmap.get("max_size"), ctx.env) if "max_size" in dmap else None
    if ds is None or dm is None:
        c.undecided("CodePackage.__init__:defaults", "defaults-not-constant", "", repo.loc(cp, cp.node))
    else:
        c.check(ds == 0 and dm >= ds, "CodePackage.__init__:defaults", "size 0, max_size >= size", "size=%s max_size=%s" % (ds, dm),
                "an empty CodePackage (END, EQU, ORG, ...) reports size %s and max_size %s: directives that emit nothing must occupy 0 bytes, and a max_size below size makes PC-relative estimates too small" % (ds, dm),
                repo.loc(cp, cp.node))
    # DIR-2 widths of the emitting arms
    want = {"FCB": ("is_multi_byte", 2, 1), "FDB": ("is_multi_word", 4, 2)}
    for m, (pred, hint, size) in want.items():
        for o in arms.get(m, []):
            kw = o.value.kw
            multi = any(pred in a and t for a, t in o.path.conds)
            site = "PseudoOperand.translate:%s/%s" % (m, "list" if multi else "single")
            if multi:
                good = repr(kw.get("size")) == "<self.value.byte_len()>" and repr(kw.get("max_size")) == "<self.value.byte_len()>" and repr(kw.get("additional")) == "<self.value>"
                c.check(good, site, "size = byte_len() of the very value emitted", "size=%r max=%r additional=%r" % (kw.get("size"), kw.get("max_size"), kw.get("additional")),
                        "%s list: size/max_size must be the byte length of the value emitted" % m, where)
            else:
                add = kw.get("additional")
                h = add.kw.get("size_hint") if isinstance(add, Ctor) else None
                good = isinstance(h, Const) and h.v == hint and repr(kw.get("size")) == "Const(%#x)" % size and repr(kw.get("max_size")) == "Const(%#x)" % size
                c.check(good, site, "hint %d, size %d" % (hint, size), "hint %r size %r max %r" % (h, kw.get("size"), kw.get("max_size")),
                        "%s single value: rendered with size_hint %r in a statement of size %r; the directive is %d byte(s) wide" % (m, h, kw.get("size"), size), where)
                if isinstance(add, Ctor) and add.args and repr(add.args[0]) == "<self.value.int>":
                    c.finding(site + ":sign", "value re-wrapped from its magnitude (sign dropped, symbols read as 0)",
                              "%s with a single operand emits NumericValue(self.value.int): the sign of a negative literal is lost (%s -1 emits %s) and a symbol operand, "
                              "never resolved by PseudoOperand.resolve_symbols, emits 0" % (m, m, "01" if m == "FCB" else "00 01"), where)
    for o in arms.get("RMB", []):
        kw = o.value.kw
        add = kw.get("additional")
        h = add.kw.get("size_hint") if isinstance(add, Ctor) else None
        good = repr(kw.get("size")) == "<self.value.int>" and repr(kw.get("max_size")) == "<self.value.int>" and isinstance(h, Lin) and h.terms == {"self.value.int": 2} and h.c == 0 \
            and isinstance(add.args[0], Const) and add.args[0].v == 0
        c.check(good, "PseudoOperand.translate:RMB", "n zero bytes: size n, hint 2n, value 0", "size=%r hint=%r value=%r" % (kw.get("size"), h, add.args[0] if isinstance(add, Ctor) and add.args else None),
                "RMB n must reserve n zero bytes (size n, 2n hex digits of 0)", where)
    for o in arms.get("FCC", []):
        kw = o.value.kw
        good = repr(kw.get("size")) == "<self.value.byte_len()>" and repr(kw.get("additional")) == "<self.value>"
        c.check(good, "PseudoOperand.translate:FCC", "size = byte_len() of the string emitted", "size=%r additional=%r" % (kw.get("size"), kw.get("additional")),
                "FCC: size must be the byte length of the string emitted", where)
    # the operand text of a data directive reaches the value classes as written: a case change alters character literals ('a -> 'A)
    pi = repo.method("PseudoOperand", "__init__")
    opname = [p_ for p_ in pi.params if p_ != "self"][0]
    casey = {}
    for n_ in ast.walk(pi.node):
        if isinstance(n_, ast.Assign) and isinstance(n_.targets[0], ast.Name):
            for x in ast.walk(n_.value):
                if isinstance(x, ast.Call) and isinstance(x.func, ast.Attribute) and x.func.attr in ("upper", "lower", "casefold", "title", "swapcase", "capitalize") \
                        and (U(x.func.value) == opname or U(x.func.value) == "self.operand_string"):
                    casey[n_.targets[0].id] = x
    for n_ in ast.walk(pi.node):
        if isinstance(n_, ast.Call) and U(n_.func) in ("MultiByteValue", "MultiWordValue", "Value.create_from_str", "StringValue") and n_.args:
            a0 = n_.args[0]
            direct = [x for x in ast.walk(a0) if isinstance(x, ast.Call) and isinstance(x.func, ast.Attribute) and x.func.attr in ("upper", "lower", "casefold", "title", "swapcase", "capitalize")]
            via = [casey[x.id] for x in ast.walk(a0) if isinstance(x, ast.Name) and x.id in casey]
            if direct or via:
                c.finding("PseudoOperand.__init__:operand-case", "the operand text is case-changed before it is parsed (%s)" % U((direct or via)[0])[:40],
                          "PseudoOperand.__init__ hands `%s` to %s: character literals and strings in the operand change case with it (FCB 'a emits 41)" % (U((direct or via)[0]), U(n_.func)),
                          repo.loc(pi, n_))
                break
    # list element widths
    for cls, w in (("MultiByteValue", 2), ("MultiWordValue", 4)):
        f = repo.method(cls, "__init__")
        envc = {**ctx.env, **ctx.self_env(cls)}
        sizes = [try_fold(k.value, envc) for n in ast.walk(f.node) if isinstance(n, ast.Call) and U(n.func).endswith(".hex") for k in n.keywords if k.arg == "size"]
        sizes = [x for x in sizes if x is not None] if all(x is not None for x in sizes) else []
        if not sizes:
            # the width may be passed to a shared base class / helper: super().__init__(value, unit) or self.parse_list(value, 2)
            for n in ast.walk(f.node):
                if isinstance(n, ast.Call) and ("super()" in U(n.func) or U(n.func).startswith("self.")):
                    ints = [try_fold(a_, ctx.env) for a_ in n.args] + [try_fold(k.value, ctx.env) for k in n.keywords]
                    ints = [x for x in ints if isinstance(x, int) and not isinstance(x, bool)]
                    if len(ints) == 1:
                        sizes = ints
        if not sizes:
            c.undecided("%s:element-width" % cls, "width-not-recognised", "", repo.loc(f, f.node))
        else:
            c.check(sizes == [w], "%s:element-width" % cls, "%d hex digits per element" % w, "element width %s" % sizes,
                    "%s renders its elements with %s hex digits, the directive needs %d" % (cls, sizes, w), repo.loc(f, f.node))
        # each element is a numeric literal: built by NumericValue.  Value.create_from_str also yields symbols and expressions,
        # which nothing resolves inside a list and which render as no bytes at all
        ctors = [U(n.func.value.func) for n in ast.walk(f.node) if isinstance(n, ast.Call) and isinstance(n.func, ast.Attribute) and n.func.attr == "hex"
                 and isinstance(n.func.value, ast.Call)]
        loose = [x for x in ctors if x in ("Value.create_from_str", "SymbolValue", "ExpressionValue", "cls.create_from_str")]
        if loose:
            c.finding("%s:element-type" % cls, "elements built by %s" % loose[0],
                      "%s builds its elements with %s: a label or expression in the list is accepted, never resolved, and contributes no byte (or the wrong width) "
                      "to the data emitted" % (cls, loose[0]), repo.loc(f, f.node))
        elif ctors and all(x == "NumericValue" for x in ctors):
            c.ok("%s:element-type" % cls, "elements are NumericValue literals", repo.loc(f, f.node))
        seps = [try_fold(n.args[0], envc) for n in ast.walk(f.node) if isinstance(n, ast.Call) and U(n.func).endswith(".split") and n.args]
        seps = [] if any(x is None for x in seps) else seps
        if not seps:
            c.undecided("%s:separator" % cls, "split-not-recognised", "", repo.loc(f, f.node))
        else:
            c.check(seps == [","], "%s:separator" % cls, "split on ','", "split on %s" % seps, "%s splits its operand on %s" % (cls, seps), repo.loc(f, f.node))
    # the list constructors folded for sample lists: one element per value, two's complement of negatives at the directive's width
    from .wid import fold_constructor as _fcl, fold_method as _fml
    from ..consteval import Raised as _Rl, NotConst as _Nl

    def _objcall(cls_, args_, kw_, meth_, margs_, mkw_):
        from ..consteval import ObjTok as _OT
        if isinstance(args_, _OT):
            st_ = args_.state
        else:
            init_ = repo.method(cls_, "__init__")
            a_ = dict(zip([p_ for p_ in init_.params if p_ != "self"], args_))
            a_.update(kw_)
            st_ = _fcl(ctx, cls_, a_)
        if meth_ == "@new":
            return _OT(cls_, st_)
        if meth_.startswith("@"):
            if "self." + meth_[1:] in st_:
                return st_["self." + meth_[1:]]
            raise _Nl("attribute %s" % meth_[1:])
        return _fml(ctx, cls_, meth_, {k_: v_ for k_, v_ in st_.items() if k_.startswith("self.")}, margs_, mkw_)
    value_classes = {cn_ for cn_ in repo.classes if cn_.endswith("NumericValue") or cn_ in ("AddressValue",)}
    for cls, w in (("MultiByteValue", 2), ("MultiWordValue", 4)):
        f = repo.method(cls, "__init__")
        bad_, und_ = None, None
        samples = [("1,2,3", [1, 2, 3]), ("1,-1", [1, -1]), ("-128,127", [-128, 127]), ("$7F,$0A", [0x7F, 0x0A]), ("0,255", [0, 255]),
                   ("34,'',0", [34, 0x27, 0]), ("'A,'.,'?", [0x41, 0x2E, 0x3F]), ("%00000101,$5", [5, 5])]
        if w == 4:
            samples += [("-129,$1234", [-129, 0x1234]), ("-256,-32768", [-256, -32768]), ("65535,256", [65535, 256])]
        for text, vals in samples:
            want_ = [("%%0%dX" % w) % (v_ & ((1 << (4 * w)) - 1)) for v_ in vals]
            try:
                got_ = _fcl(ctx, cls, {"value": text, "$objcall": (value_classes, _objcall)}).get("self.hex_array")
            except _Rl as e_:
                got_ = "rejected (%s)" % e_.name
            except (_Nl, Exception) as e_:
                und_ = "%s for %r" % (str(e_)[:60], text)
                break
            if not (isinstance(got_, list) and [str(x).upper() for x in got_] == want_):
                bad_ = (text, got_, want_)
                break
        if und_:
            c.undecided("%s:elements" % cls, "constructor-not-foldable", und_, repo.loc(f, f.node))
        elif bad_:
            c.finding("%s:elements" % cls, "the list %s is stored as %s" % (bad_[0], bad_[1]),
                      "%s(%r) holds %s; the directive emits %s (one element per value, negatives as two's complement at %d hex digits)" % (cls, bad_[0], bad_[1], bad_[2], w), repo.loc(f, f.node))
        else:
            c.ok("%s:elements" % cls, "folded for %d sample lists" % len(samples), repo.loc(f, f.node))
    sv = repo.method("StringValue", "__init__")
    t = U(sv.node)
    good = "value[-1] != value[0]" in t and "value[1:-1]" in t and "ord(x)" in t
    # decided by folding the constructor for sample strings: one byte per character between the delimiters, blanks included
    from .wid import fold_constructor as _fcs
    from ..consteval import Raised as _Rs2, NotConst as _Ns2
    sv_bad = None
    sv_und = None
    for text, want in (('"AB"', [0x41, 0x42]), ('" A "', [0x20, 0x41, 0x20]), ("/X/", [0x58]), ('""', []), ("'it''", None), ('"AB', None), ("|a b|", [0x61, 0x20, 0x62]),
                       ("XHELLOX", [0x48, 0x45, 0x4C, 0x4C, 0x4F]), ("1AB1", [0x41, 0x42]),
                       ('"A\\nB"', [0x41, 0x5C, 0x6E, 0x42]), ('"\\\\"', [0x5C, 0x5C]), ('"50%"', [0x35, 0x30, 0x25]), ('"{x}"', [0x7B, 0x78, 0x7D])):
        try:
            out_ = _fcs(ctx, "StringValue", {"value": text})
            ha = out_.get("self.hex_array")
            got_ = [int(x, 16) for x in ha] if isinstance(ha, list) else None
        except _Rs2:
            got_ = "raises"
        except (_Ns2, Exception) as e_:
            sv_und = "%s for %r" % (str(e_)[:50], text)
            break
        if want is None:
            continue
        if got_ != want:
            sv_bad = (text, got_, want)
            break
    if sv_und is None and sv_bad:
        c.finding("StringValue", "the string %s is stored as %s" % (sv_bad[0], sv_bad[1]),
                  "StringValue(%s) holds the bytes %s; the characters between the delimiters are %s (every character counts, leading and trailing blanks too)" % sv_bad, repo.loc(sv, sv.node))
    elif sv_und is None:
        c.ok("StringValue", "delimiters must match; one byte per character between them", repo.loc(sv, sv.node))
    else:
        c.undecided("StringValue", "constructor-not-foldable", sv_und, repo.loc(sv, sv.node))
    # DIR-3 FCC reassembly in parse_line
    pl = repo.method("Statement", "parse_line")
    wp = repo.loc(pl, pl.node)
    from ..inline import flatten as _fl2
    pl_flat = _fl2(repo, pl, depth=2)
    fcc = None
    for n in ast.walk(pl_flat):
        if isinstance(n, ast.If) and "is_string_define" in U(n.test):
            fcc = n
    if fcc is None:
        c.undecided("parse_line:FCC", "branch-not-found", "", wp)
    else:
        t = U(fcc)
        find_calls = [n for n in ast.walk(fcc) if isinstance(n, ast.Call) and isinstance(n.func, ast.Attribute) and n.func.attr in ("find", "rfind", "index", "rindex")]
        good = len(find_calls) == 1 and find_calls[0].func.attr in ("find", "index") and len(find_calls[0].args) == 2 and try_fold(find_calls[0].args[1]) == 1
        if not find_calls:
            c.undecided("parse_line:FCC:closing", "delimiter-search-not-recognised", "", repo.loc(pl, fcc))
        else:
          c.check(good, "parse_line:FCC:closing", "closing delimiter = first occurrence after the opening one", "closing delimiter located by %s" % [U(x) for x in find_calls],
                "the FCC branch finds the closing delimiter with %s; it is the first occurrence of the opening character after position 0 "
                "(searching from the right turns comment text containing the delimiter into data)" % [U(x) for x in find_calls], repo.loc(pl, fcc))
        # the text handed to the operand classes is exactly the delimited string of the source line: the branch is folded on sample lines, with
        # `data` bound to the match object of the module's own line pattern
        from ..consteval import fold as _fold, fold_body as _fold_body, NotConst as _NC, Raised as _Rs
        rx_line = ctx.env.get("ASM_LINE_REGEX")
        cfs = [n for n in ast.walk(fcc) if isinstance(n, ast.Call) and U(n.func) == "Operand.create_from_str" and n.args]
        mvar = next((U(n.func.value) for n in ast.walk(fcc) if isinstance(n, ast.Call) and isinstance(n.func, ast.Attribute) and n.func.attr == "group"), None)
        results = {}
        if cfs and rx_line is not None and mvar:
            pre = []
            for st in fcc.body:
                if any(x is cfs[0] for x in ast.walk(st)):
                    break
                pre.append(st)
            try:
                for line, want in ((' FCC /AB/', "/AB/"), (' FCC /AB/ rest', "/AB/"), (' FCC "ONE TWO THREE"', '"ONE TWO THREE"'), (' FCC "ONE TWO  THREE" c', '"ONE TWO  THREE"'),
                                   (" FCC /AB/x", "/AB/"), (" FCC 'Q' 'R'", "'Q'"), (' FCC "A B\tC  D"', '"A B\tC  D"'), (' FCC "A  B"', '"A  B"'), (' FCC ""', '""'), (' FCC // c', '//'),
                                   (' FCC """A"', '""'), (' FCC "AB""CDE"', '"AB"'),
                                   (' FCC .A.B', '.A.'), (' FCC *AB* c', '*AB*'), (' FCC ?X? y', '?X?'), (' FCC $A$ c', '$A$'), (' FCC +A+', '+A+'), (' FCC (A( c', '(A(')):
                    m_ = rx_line.match(line + "\n")
                    if m_ is None:
                        continue
                    envf = dict(ctx.env)
                    envf[mvar] = m_
                    envf["line"] = line + "\n"
                    final = {}
                    try:
                        _fold_body(pre, envf, final=final)
                        results[line] = (_fold(cfs[0].args[0], final), want)
                    except _Rs as e_:
                        results[line] = ("raises %s" % e_.name, want)
                first_gap = ' FCC "A  B"'
                bad = [(ln, g_, w_) for ln, (g_, w_) in results.items() if g_ != w_ and ln != first_gap]
                if bad:
                    c.finding("parse_line:FCC:slice", "line %r gives the string %r" % (bad[0][0].strip(), bad[0][1]),
                              "for the source line %r the FCC branch hands %r to the operand classes; the delimited string written in the source is %r" % (bad[0][0].strip(), bad[0][1], bad[0][2]),
                              repo.loc(pl, cfs[0]))
                else:
                    c.ok("parse_line:FCC:slice", "the delimited string as written (white space after the first gap kept), nothing after it", repo.loc(pl, cfs[0]))
            except _NC as e:
                if "step limit" in str(e):
                    c.finding("parse_line:FCC:terminates", "the FCC branch does not finish for the line %r" % line.strip(),
                              "folding the FCC branch of parse_line for the source line %r exceeds 20000 steps: a loop in it makes no progress for that input, so the assembler hangs "
                              "instead of reporting the line" % line.strip(), repo.loc(pl, cfs[0]))
                else:
                    c.undecided("parse_line:FCC:slice", "branch-not-foldable", str(e)[:80], repo.loc(pl, cfs[0]))
        fg = results.get(' FCC "A  B"')
        if (fg is not None and fg[0] != fg[1]) or (fg is None and "'{} {}'.format(data.group('operands'), data.group('comment').strip())" in t):
            c.finding("parse_line:FCC:reassembly", "string rebuilt from the operands and comment groups with a single space",
                      "the FCC operand is reconstructed as operands + ' ' + comment: the line pattern splits at the first white space or ';', so runs of spaces collapse "
                      "(FCC \"A  B\" emits 3 bytes) and ';' inside the string becomes a space (FCC \"A;B\")", repo.loc(pl, fcc))
    # DIR-4 symbols in data directives
    rs = repo.method("PseudoOperand", "resolve_symbols", inherited=False)
    if U(rs.node).strip().endswith("return self") and len(body_without_doc(rs.node)) == 1:
        c.finding("PseudoOperand.resolve_symbols", "never resolves",
                  "PseudoOperand.resolve_symbols returns self unchanged: FCB LABEL emits 00, FDB E,L raises, and an undefined symbol in a data directive is accepted silently", repo.loc(rs, rs.node))
    else:
        # resolving is only half of it: the value of an EQU / SET is not code.  If it becomes an address value, fix_addresses (which patches every operand whose value
        # is a label) stores that address as operand bytes of a statement whose translate() returned an empty package
        defs = [n for n in ast.walk(rs.node) if isinstance(n, ast.If) and "is_pseudo_define" in U(n.test) and any(isinstance(x, ast.Call) and U(x.func).endswith(".resolve") for x in ast.walk(n))]
        fa_ = repo.method("Statement", "fix_addresses")
        unguarded = any(isinstance(n, ast.If) and re.fullmatch(r"self\.operand\.value\.is_address\(\)", U(n.test)) for n in ast.walk(fa_.node))
        # which directives have their operand resolved: the method evaluated once per pseudo mnemonic with an operand that is a symbol
        from ..concrete import Obj as _Or, Desc as _Dr, run_concrete as _rcr
        rows_, _, _m = ctx.instructions()
        resolved_for, notes_r = [], []
        for r_ in [x for x in rows_ if x.flags["is_pseudo"]]:
            ins_ = _Or("Instruction")
            ins_.attrs.update(dict(r_.flags))
            ins_.attrs["mnemonic"] = r_.mnemonic
            val_ = _Or("SymbolValue", label="<symbol operand>")
            envr = dict(ctx.env)
            envr.update({"self.instruction": ins_, "self.value": val_, "self.operand_string": "LABEL"})
            evr, ntr = [], []
            hooks_r = {("*", pn_): (lambda r, a, _p=pn_: _p == "is_symbol") for pn_ in ("is_symbol", "is_numeric", "is_address", "is_expression", "is_address_expression", "is_none", "is_string", "is_multi_byte", "is_multi_word")}
            _rcr(body_without_doc(rs.node), envr, evr, ntr, hooks=hooks_r)
            notes_r += ntr
            if any(e[0] == "call" and e[2] == "resolve" for e in evr):
                resolved_for.append(r_.mnemonic)
        narrow = [m_ for m_ in resolved_for if m_ != "FDB"]
        if unguarded and narrow and not notes_r and not (defs and set(narrow) <= {"EQU", "SET"}):
            c.finding("PseudoOperand.resolve_symbols:width", "a label operand of %s becomes a 16-bit address" % ", ".join(narrow[:4]),
                      "PseudoOperand.resolve_symbols resolves a symbol operand of %s; when the symbol is a label the value becomes an AddressValue, and Statement.fix_addresses replaces the "
                      "operand of every such statement by the label's two-byte address: `FCB LABEL` reserves one byte and emits two, a directive that emits nothing receives two operand "
                      "bytes, and every later address moves" % ", ".join(narrow), repo.loc(rs, rs.node))
        if defs and unguarded:
            c.finding("PseudoOperand.resolve_symbols", "an EQU operand that is a label becomes an address value",
                      "PseudoOperand.resolve_symbols resolves the operand of EQU / SET; for `ALIAS EQU LABEL` the value becomes the label's AddressValue, and Statement.fix_addresses "
                      "patches every operand whose value is a label: the EQU statement, which emits nothing, receives two operand bytes and every later address moves", repo.loc(rs, rs.node))
        else:
            c.ok("PseudoOperand.resolve_symbols", "resolves", repo.loc(rs, rs.node))
    # EQU width tagging by spelling: PseudoOperand.__init__ evaluated for one constant (16) written six ways; which value class the EQU ends up
    # holding is the width tag that ExpressionValue.resolve later propagates
    init = repo.method("PseudoOperand", "__init__")
    from ..concrete import Obj as _O2, ClsRef as _C2, Desc as _D2, run_concrete as _run2
    from .wid import fold_constructor as _fc, fold_method as _fm
    from ..consteval import Raised as _Rz, NotConst as _Nz
    eff_rows, _dups = ctx.effective_rows()
    tag_table = {}
    tag_notes = []
    if "EQU" in eff_rows:
        for spelling in ("$10", "$0010", "16", "%00010000", "$5", "5", "'A"):
            ins = _O2("Instruction", label="<EQU>")
            ins.attrs.update(dict(eff_rows["EQU"].flags))
            ins.attrs["mnemonic"] = "EQU"
            ins.attrs.setdefault("is_16_bit", False)

            def mkval(avals, _sp=spelling):
                text = avals[0] if avals and isinstance(avals[0], str) and not isinstance(avals[0], _D2) else _sp
                try:
                    st_ = _fc(ctx, "NumericValue", {"value": text, "size_hint": None, "mode": ctx.env.get("ExplicitAddressingMode.EXTENDED")})
                except (_Rz, _Nz):
                    return _D2("Value.create_from_str(%s)" % text)
                o = _O2("NumericValue", label="<NumericValue %s>" % text)
                o.attrs.update({k[5:]: v for k, v in st_.items() if isinstance(k, str) and k.startswith("self.")})
                return o

            def hexlen(r, avals):
                if r.cls != "NumericValue":
                    return _D2("%r.hex_len()" % r)
                return _fm(ctx, "NumericValue", "hex_len", {"self.int": r.attrs.get("int"), "self.size_hint": r.attrs.get("size_hint"), "self.negative": r.attrs.get("negative", False)})
            envq = dict(ctx.env)
            for cn in ("ExtendedNumericValue", "DirectNumericValue", "NoneValue", "MultiByteValue", "MultiWordValue", "OperandTypeError"):
                envq[cn] = _C2(cn)
            ps = [p_ for p_ in init.params if p_ != "self"]
            envq.update({ps[0]: spelling, ps[1]: ins})
            evq, ntq = [], []
            try:
                _run2(body_without_doc(init.node), envq, evq, ntq, hooks={("Value", "create_from_str"): mkval, ("*", "hex_len"): hexlen})
            except Exception as e_:
                ntq.append(repr(e_)[:60])
            tag_notes += ntq
            v_ = envq.get("self.value")
            tag_table[spelling] = v_.cls if isinstance(v_, _O2) else "?"
    kinds_seen = sorted(set(tag_table.values()))
    if tag_table and not tag_notes and "?" not in kinds_seen:
        if len(kinds_seen) > 1:
            byclass = ", ".join("%s -> %s" % (k, v.replace("NumericValue", "") or "plain") for k, v in tag_table.items())
            baseline = {"$10": "DirectNumericValue", "$0010": "ExtendedNumericValue", "16": "NumericValue", "%00010000": "DirectNumericValue", "$5": "NumericValue", "5": "NumericValue",
                        "'A": "NumericValue"}
            fact = "EQU width tagged by the spelling of the constant" if tag_table == baseline else "EQU width tag follows the spelling or magnitude of the constant: %s" % byclass
            c.finding("PseudoOperand.__init__:EQU", fact,
                      "EQU tags its value as 16-bit when it is written with $ and more than two digits, and ExpressionValue.resolve propagates the tag: E EQU $0010 / LDA #E+1 gives 86 00 11"
                      if tag_table == baseline else
                      "an EQU constant ends up in a different value class depending on how it is written (%s); ExpressionValue.resolve takes the width of an expression from those classes, so "
                      "`LDD #COUNT+1` is a byte or a word depending on the spelling or size of COUNT" % byclass, repo.loc(init, init.node))
        else:
            c.ok("PseudoOperand.__init__:EQU", "every spelling of a constant gives the same value class", repo.loc(init, init.node))
    elif re.search(r"operand_string\.startswith\('\$'\) and len\(self\.operand_string\) > 3", U(init.node)):
        c.finding("PseudoOperand.__init__:EQU", "EQU width tagged by the spelling of the constant",
                  "EQU tags its value as 16-bit when it is written with $ and more than two digits, and ExpressionValue.resolve propagates the tag: E EQU $0010 / LDA #E+1 gives 86 00 11",
                  repo.loc(init, init.node))


def inc1(ctx, c):
    """INC-1 splice in place; INC-2 same reader; path taken as written."""
    repo = ctx.repo
    fn = repo.method("Program", "process_mnemonics")
    where = repo.loc(fn, fn.node)
    from ..inline import flatten as _flinc
    fn_flat = _flinc(repo, fn, depth=2, only={m_ for m_ in repo.cls("Program").methods if m_ not in ("process_mnemonics", "parse")})
    loop = next((n for n in body_without_doc(fn_flat) if isinstance(n, ast.For)), None)
    if loop is None:
        c.undecided("process_mnemonics", "loop-not-found", "", where)
        return
    params = [p for p in fn.params if p not in ("self", "cls")]
    it_ = loop.iter
    while isinstance(it_, ast.Call) and isinstance(it_.func, ast.Name) and it_.func.id in ("enumerate", "list", "tuple", "iter") and it_.args:
        it_ = it_.args[0]          # wrappers that keep every element in order
    # the parameter re-bound to a copy of itself (`statements = list(statements)`) is still the input
    mutated = [x for x in ast.walk(loop) if (isinstance(x, (ast.Assign, ast.AugAssign, ast.Delete)) and any(
                   isinstance(t_, ast.Subscript) and U(t_.value) == U(it_) for t_ in (x.targets if isinstance(x, (ast.Assign, ast.Delete)) else [x.target])))
               or (isinstance(x, ast.Call) and isinstance(x.func, ast.Attribute) and U(x.func.value) == U(it_) and x.func.attr in ("insert", "pop", "remove", "extend", "append", "clear"))]
    if U(it_) == params[0] and mutated and it_ is not loop.iter and not (isinstance(loop.iter, ast.Call) and U(loop.iter.func) in ("list", "tuple")):
        c.finding("process_mnemonics:iteration", "the list being iterated is changed inside the loop (%s)" % U(mutated[0])[:50],
                  "process_mnemonics walks `%s` and stores into the same list inside the loop (`%s`): the walk then visits the spliced-in statements again (their INCLUDEs "
                  "are expanded by the wrong pass, with the wrong chain) and the caller's list is altered" % (U(loop.iter), U(mutated[0])[:70]), repo.loc(fn, mutated[0]))
    elif U(it_) == params[0] and mutated and it_ is loop.iter:
        c.finding("process_mnemonics:iteration", "the list being iterated is changed inside the loop (%s)" % U(mutated[0])[:50],
                  "process_mnemonics walks `%s` and stores into the same list inside the loop (`%s`)" % (U(loop.iter), U(mutated[0])[:70]), repo.loc(fn, mutated[0]))
    elif U(it_) == params[0]:
        c.ok("process_mnemonics:iteration", "iterates its input in order", repo.loc(fn, loop))
    elif (isinstance(it_, ast.Call) and isinstance(it_.func, ast.Name) and it_.func.id in ("reversed", "sorted", "set") and it_.args and U(it_.args[0]) == params[0]) or \
            (isinstance(it_, ast.Subscript) and isinstance(it_.slice, ast.Slice) and U(it_.value) == params[0]):
        c.finding("process_mnemonics:iteration", "iterates %s" % U(loop.iter),
                  "process_mnemonics iterates %s instead of the statements it was given, in their order" % U(loop.iter), repo.loc(fn, loop))
    else:
        c.undecided("process_mnemonics:iteration", "loop-source-not-recognised", U(loop.iter)[:60], repo.loc(fn, loop))
    branch = next((n for n in loop.body if isinstance(n, ast.If)), None)
    result = None
    ext = []
    for n in ast.walk(loop):
        if isinstance(n, ast.Call) and isinstance(n.func, ast.Attribute) and n.func.attr in ("extend", "append", "insert"):
            ext.append((U(n.func.value), n.func.attr, U(n.args[0]) if n.args else "", n))
            result = U(n.func.value)
    ok_else = any(a in ("extend", "append") and arg in ("[%s]" % U(loop.target), U(loop.target)) for _, a, arg, _ in ext)
    c.shape(ok_else, "process_mnemonics:keep", "a non-INCLUDE statement is kept as is", "append of the statement itself not recognised", where)
    inc_ext = [x for x in ext if x[2] not in ("[%s]" % U(loop.target), U(loop.target))]
    plus = [n for n in ast.walk(loop) if isinstance(n, ast.AugAssign) and isinstance(n.op, ast.Add)]
    if len(inc_ext) == 1 and inc_ext[0][1] == "extend" or (not inc_ext and plus):
        c.ok("process_mnemonics:splice", "included statements are spliced at the INCLUDE's position", where)
    elif inc_ext and inc_ext[0][1] == "insert":
        c.finding("process_mnemonics:splice", "included statements inserted with %s" % U(inc_ext[0][3])[:50], "process_mnemonics does not splice the included statements at the INCLUDE's position", where)
    else:
        c.undecided("process_mnemonics:splice", "shape-not-recognised", str([(a, arg) for _, a, arg, _ in inc_ext]), where)
    # every inclusion contributes Statement objects of its own: an object spliced in twice is laid out once (set_address returns the address a
    # statement already has), so the second copy and everything after it is listed and addressed where the first copy stands
    for recv_, how_, arg_, node_ in inc_ext:
        a0 = node_.args[-1] if node_.args else None
        stored = isinstance(a0, ast.Subscript) or (isinstance(a0, ast.Call) and isinstance(a0.func, ast.Attribute) and a0.func.attr in ("get", "setdefault", "pop")
                                                     and not U(a0.func).endswith("process_mnemonics")) \
            or (isinstance(a0, ast.Attribute) and not isinstance(a0.value, ast.Call))
        if stored and how_ in ("extend", "append"):
            c.finding("process_mnemonics:fresh-objects", "statements spliced in from a store (%s)" % arg_[:40],
                      "process_mnemonics splices in `%s`: statements kept from an earlier inclusion are the same objects, which carry the address, size and code of their "
                      "first placement; a file included twice is laid out once and every later address is wrong" % arg_[:60], repo.loc(fn, node_))
    # textual inclusion has no exceptions: what the file holds is what is spliced in - nothing filtered out, and a file without statements contributes nothing
    for recv_, how_, arg_, node_ in inc_ext:
        a0 = node_.args[-1] if node_.args else None
        srcs_ = [a0] + ([b_.value for b_ in ast.walk(loop) if isinstance(b_, ast.Assign) and any(U(t_) == a0.id for t_ in b_.targets)] if isinstance(a0, ast.Name) else [])
        filt = [x for e_ in srcs_ if e_ is not None for x in ast.walk(e_)
                if (isinstance(x, (ast.ListComp, ast.GeneratorExp)) and any(g_.ifs for g_ in x.generators)) or (isinstance(x, ast.Call) and U(x.func) == "filter")
                or (isinstance(x, ast.Subscript) and isinstance(x.slice, ast.Slice) and not U(x.value).endswith("including"))]
        if filt and how_ in ("extend", "append"):
            c.finding("process_mnemonics:splice-whole", "the included statements are filtered (%s)" % U(filt[0])[:50],
                      "process_mnemonics splices in `%s`: statements of the included file are left out, so the program differs from the one with the file's lines in place "
                      "(a label or NAM on a dropped line is never defined)" % U(filt[0])[:70], repo.loc(fn, node_))
        elif how_ == "extend":
            c.ok("process_mnemonics:splice-whole", "every statement of the expansion is spliced in", repo.loc(fn, node_))
    rec_vars = {U(b_.targets[0]) for b_ in ast.walk(loop) if isinstance(b_, ast.Assign) and isinstance(b_.value, ast.Call) and U(b_.value.func).endswith("process_mnemonics")}
    for n_ in ast.walk(loop):
        if isinstance(n_, ast.If) and n_.body and isinstance(n_.body[-1], ast.Raise) and re.fullmatch(r"not (\w+)|len\((\w+)\) == 0|(\w+) == \[\]", U(n_.test)):
            v_ = next(g_ for g_ in re.fullmatch(r"not (\w+)|len\((\w+)\) == 0|(\w+) == \[\]", U(n_.test)).groups() if g_)
            if v_ in rec_vars:
                c.finding("process_mnemonics:empty-include", "an inclusion that yields no statements is refused (%s)" % U(n_.test),
                          "process_mnemonics raises when `%s`: a file that holds only comments or blank lines is a legal include that contributes nothing; the program with its lines in "
                          "place assembles" % U(n_.test), repo.loc(fn, n_))
    # ... and the statements of the file are spliced in as they are: the INCLUDE line contributes nothing of its own (its label, its comment) to them
    for n_ in ast.walk(loop):
        if isinstance(n_, (ast.Assign, ast.AugAssign)):
            for t_ in (n_.targets if isinstance(n_, ast.Assign) else [n_.target]):
                if isinstance(t_, ast.Attribute):
                    root_ = t_.value
                    while isinstance(root_, (ast.Subscript, ast.Attribute)):
                        root_ = root_.value
                    if isinstance(root_, ast.Name) and root_.id in rec_vars:
                        c.finding("process_mnemonics:alters-included", "a statement of the included file is changed (%s)" % U(n_)[:50],
                                  "process_mnemonics does `%s` on the statements that came out of the included file: the program then differs from the one that has the file's lines in "
                                  "place of the INCLUDE line (an extra or moved label, another operand)" % U(n_)[:70], repo.loc(fn, n_))
    # inclusion nests as deep as the sources do: the only inclusion that is refused is one that would never end (a cycle)
    from ..consteval import fold as _fdl, NotConst as _Ndl
    trail_p = params[1] if len(params) > 1 else None
    for n_ in ast.walk(loop):
        if isinstance(n_, ast.If) and n_.body and isinstance(n_.body[-1], ast.Raise) and trail_p and re.search(r"len\(%s\)" % re.escape(trail_p), U(n_.test)):
            import copy as _cp

            class _LS(ast.NodeTransformer):
                def visit_Call(self, node):
                    self.generic_visit(node)
                    if U(node.func) == "len" and node.args and U(node.args[0]) == trail_p:
                        return ast.copy_location(ast.Name(id="__depth", ctx=ast.Load()), node)
                    return node
            t2_ = _LS().visit(_cp.deepcopy(n_.test))
            try:
                refused_at = [d_ for d_ in range(0, 9) if _fdl(t2_, dict(ctx.env, __depth=d_))]
            except _Ndl:
                continue
            if refused_at:
                c.finding("process_mnemonics:depth-limit", "an INCLUDE nested %d deep is refused (%s)" % (refused_at[0] + 1, U(n_.test)[:40]),
                          "process_mnemonics raises when `%s`, i.e. with %d file(s) already open: a chain main -> a -> b -> c without any cycle is rejected although the program with the "
                          "files' lines in place assembles" % (U(n_.test)[:60], refused_at[0]), repo.loc(fn, n_))
    # the expansion is a fresh recursive parse of the file named by the operand
    t = U(loop)
    src_calls = [n for n in ast.walk(loop) if isinstance(n, ast.Call) and U(n.func) == "SourceFile"]
    name_var = None
    for n in ast.walk(loop):
        if isinstance(n, ast.Assign) and isinstance(n.value, ast.Call) and U(n.value.func).endswith("get_include_filename"):
            name_var = U(n.targets[0])
    if src_calls and name_var:
        arg = U(src_calls[0].args[0]) if src_calls[0].args else ""
        if arg != name_var and src_calls[0].args and isinstance(src_calls[0].args[0], ast.Name):
            for a_ in ast.walk(loop):
                if isinstance(a_, ast.Assign) and U(a_.targets[0]) == arg:
                    arg = U(a_.value)
        if arg != name_var and not re.search(r"os\.path|join|dirname|abspath|basename|expanduser|lstrip|replace", arg):
            c.undecided("process_mnemonics:path", "argument-not-recognised", arg, repo.loc(fn, src_calls[0]))
        else:
          c.check(arg == name_var and not src_calls[0].keywords, "process_mnemonics:path", "opens the operand as written (relative to the working directory)", "opens %s" % U(src_calls[0]),
                "process_mnemonics opens %s; the INCLUDE operand is a path relative to the working directory and the file is an assembly source" % U(src_calls[0]), repo.loc(fn, src_calls[0]))
    else:
        c.undecided("process_mnemonics:path", "SourceFile-call-not-found", "", where)
    rec = [n for n in ast.walk(loop) if isinstance(n, ast.Call) and U(n.func).endswith("process_mnemonics")]
    # ... and always: whether the included text has INCLUDEs of its own is found out by parsing it, not by looking for a word in its lines
    for r_ in rec:
        encl = [i_ for i_ in ast.walk(loop) if isinstance(i_, ast.If) and any(x is r_ for b_ in i_.body for x in ast.walk(b_))]
        textual = [i_ for i_ in encl if re.search(r"'INCLUDE'|\"INCLUDE\"|in line|get_buffer\(\)|readlines|\.upper\(\)", U(i_.test)) and "get_include_filename" not in U(i_.test)]
        if textual:
            c.finding("process_mnemonics:recursion-conditional", "nested INCLUDEs are expanded only when `%s`" % U(textual[0].test)[:50],
                      "process_mnemonics calls itself for the included file only under `%s`: an included file whose own INCLUDE is spelled in another letter case (or otherwise escapes the "
                      "test) is spliced in unexpanded" % U(textual[0].test)[:70], repo.loc(fn, textual[0]))
    dropped = [n for n in ast.walk(loop) if isinstance(n, ast.Expr) and n.value in rec]
    if dropped:
        c.finding("process_mnemonics:recursion-result", "the result of the recursive expansion is discarded",
                  "process_mnemonics calls itself on the included file's statements as a statement of its own (`%s`): the expansion returns a new list, which is thrown away, so INCLUDEs "
                  "inside an included file are never expanded" % U(dropped[0])[:70], repo.loc(fn, dropped[0]))
    if not rec:
        c.finding("process_mnemonics:recursion", "no recursive expansion", "process_mnemonics does not expand INCLUDEs inside an included file", where)
    else:
        parsed = all(r.args and re.fullmatch(r"(cls|self|Program)\.parse\(.+\)", U(r.args[0])) is not None for r in rec)
        cached = any(isinstance(r.args[0], ast.Subscript) or (isinstance(r.args[0], ast.Attribute)) for r in rec if r.args)
        if parsed:
            c.ok("process_mnemonics:recursion", "expansion = process_mnemonics(parse(lines of the file))", where)
        elif cached:
            c.finding("process_mnemonics:recursion", "expansion of stored statements: %s" % U(rec[0].args[0])[:50],
                      "the included file must be parsed freshly at each INCLUDE (Statement objects carry addresses and sizes); process_mnemonics expands %s" % U(rec[0].args[0])[:80], where)
        else:
            c.undecided("process_mnemonics:recursion", "shape-not-recognised", U(rec[0])[:80], where)
    from ..inline import flatten as _fl
    whole = U(_fl(repo, fn, depth=2, only={m_ for m_ in repo.cls("Program").methods if m_ not in ("process_mnemonics", "parse")}))
    reads = "read_file(" in whole or "read_assembly_contents(" in whole or "readlines(" in whole or "open(" in whole
    c.shape(reads, "process_mnemonics:read", "file read at the point of inclusion", "no read of the included file recognised", where)
    # get_include_filename evaluated for sample operands: the name returned is the operand as written
    gi = repo.method("Statement", "get_include_filename")
    import os as _os
    from ..concrete import Obj as _Og, Desc as _Dg, run_concrete as _rcg
    gi_bad, gi_notes = None, []
    for opnd in ("equates", "dir/file.asm", "./x.inc", "UPPER.ASM", "..//up.asm", "noext."):
        ins_ = _Og("Instruction")
        ins_.attrs["is_include"] = True
        op_ = _Og("Operand")
        op_.attrs["operand_string"] = opnd
        envg = dict(ctx.env)
        envg.update({"self.instruction": ins_, "self.operand": op_})
        hk = {("os.path", fnm): (lambda a, _f=getattr(_os.path, fnm): _f(*a)) for fnm in ("splitext", "basename", "dirname", "normpath", "join", "split", "isabs", "expanduser")}
        evg, ntg = [], []
        _rcg(body_without_doc(gi.node), envg, evg, ntg, hooks=hk)
        gi_notes += ntg
        if not ntg and envg.get("$return") != opnd:
            gi_bad = gi_bad or (opnd, envg.get("$return"))
    if gi_bad and not gi_notes:
        c.finding("Statement.get_include_filename", "INCLUDE %s names the file %r" % gi_bad,
                  "get_include_filename returns %r for the operand %r: the file included is the one the source names, character for character (no default extension, no normalisation)"
                  % (gi_bad[1], gi_bad[0]), repo.loc(gi, gi.node))
    # a file that cannot be read is an error for the caller to report, not an empty source
    rac = repo.method("SourceFile", "read_assembly_contents")
    for tr_ in [n for n in ast.walk(rac.node) if isinstance(n, ast.Try)]:
        for h in tr_.handlers:
            hn = [U(x).split(".")[-1] for x in (h.type.elts if isinstance(h.type, ast.Tuple) else [h.type])] if h.type is not None else ["BaseException"]
            if any(x in ("OSError", "IOError", "FileNotFoundError", "PermissionError", "IsADirectoryError", "Exception", "BaseException", "EnvironmentError") for x in hn) \
                    and not any(isinstance(y, ast.Raise) for y in ast.walk(h)):
                c.finding("SourceFile.read_assembly_contents:errors", "a file that cannot be opened reads as %s" % (U(next((y.value for y in ast.walk(h) if isinstance(y, ast.Return) and y.value is not None), ast.Constant(value=None)))),
                          "read_assembly_contents catches %s and returns normally: a missing INCLUDE file (or a mistyped source file) is assembled as an empty file instead of being "
                          "reported" % ", ".join(hn), repo.loc(rac, h))
    # the chain of files being expanded is extended per branch of the recursion, not accumulated in one shared list
    if trail_name_ := (params[1] if len(params) > 1 else None):
        grows = [n for n in ast.walk(fn_flat) if isinstance(n, ast.Call) and isinstance(n.func, ast.Attribute) and n.func.attr in ("append", "add", "extend") and U(n.func.value) == trail_name_]
        shrinks = [n for n in ast.walk(fn_flat) if isinstance(n, ast.Call) and isinstance(n.func, ast.Attribute) and n.func.attr in ("pop", "remove", "discard") and U(n.func.value) == trail_name_]
        if grows and not shrinks:
            c.finding("process_mnemonics:trail-shared", "the chain is one list that only grows (%s)" % U(grows[0])[:50],
                      "process_mnemonics records the file in `%s` and hands the same object down: nothing is removed when an inclusion is finished, so a file included a second time "
                      "(by a sibling, or twice by design) is rejected as including itself" % U(grows[0])[:60], repo.loc(fn, grows[0]))
    # get_include_filename returns the operand text (fallback reading)
    good = re.search(r"return self\.operand\.operand_string if self\.instruction\.is_include else None", U(gi.node)) is not None
    altered = [U(n) for n in ast.walk(gi.node) if isinstance(n, ast.Call) and isinstance(n.func, ast.Attribute) and "operand_string" in U(n.func.value)
               and n.func.attr not in ("strip",) ]
    altered += [U(n) for n in ast.walk(gi.node) if isinstance(n, ast.Call) and U(n.func) in ("os.path.basename", "os.path.normpath", "os.path.abspath", "os.path.join", "os.path.expanduser")]
    if altered:
        c.finding("Statement.get_include_filename", "the operand is transformed before use: %s" % altered[0][:50],
                  "get_include_filename returns %s instead of the operand as written: paths such as ../x or .x no longer name the file the source names" % altered[0], repo.loc(gi, gi.node))
    elif good:
        c.ok("Statement.get_include_filename", "operand text of an INCLUDE statement, else None", repo.loc(gi, gi.node))
    else:
        c.undecided("Statement.get_include_filename", "shape-unknown", "", repo.loc(gi, gi.node))
    # no visited set / missing file handling (known findings)
    if not any(isinstance(n, (ast.Try, ast.Raise)) for n in ast.walk(fn_flat)):
        c.finding("process_mnemonics:diagnostics", "a missing file or an inclusion cycle is not turned into a diagnostic",
                  "process_mnemonics opens the included file outside any handler and recurses without a visited set: a missing file ends in FileNotFoundError and a file that includes itself in RecursionError",
                  where)
    # Program.parse keeps every statement that is neither empty nor a comment: nothing else is filtered out (an INCLUDE repeated is included twice)
    pp = repo.method("Program", "parse")
    for lp in [n for n in ast.walk(pp.node) if isinstance(n, ast.For)]:
        skips = [x for x in ast.walk(lp) if isinstance(x, (ast.Continue, ast.Break))]
        # `if s.is_empty or s.is_comment_only: continue` is the same filter written as a guard clause
        benign = []
        for i_ in [n_ for n_ in ast.walk(lp) if isinstance(n_, ast.If) and not n_.orelse and len(n_.body) == 1 and isinstance(n_.body[0], ast.Continue)]:
            disj = i_.test.values if isinstance(i_.test, ast.BoolOp) and isinstance(i_.test.op, ast.Or) else [i_.test]
            if all(re.fullmatch(r"\w+\.(is_empty|is_comment_only)", U(v_)) for v_ in disj):
                benign.append(i_.body[0])
        skips = [x for x in skips if not any(x is b_ for b_ in benign)]
        guards = []
        for x in ast.walk(lp):
            if isinstance(x, ast.If) and any(isinstance(y, ast.Call) and isinstance(y.func, ast.Attribute) and y.func.attr == "append" for b in x.body for y in ast.walk(b)):
                conj = x.test.values if isinstance(x.test, ast.BoolOp) and isinstance(x.test.op, ast.And) else [x.test]
                guards += [U(v) for v in conj if not re.fullmatch(r"not \w+\.(is_empty|is_comment_only)", U(v))]
        if skips or guards:
            why = U(next((p_ for p_ in ast.walk(lp) if isinstance(p_, ast.If) and any(s_ is y for s_ in skips for y in ast.walk(p_))), lp))[:80].split("\n")[0] if skips else guards[0]
            c.finding("Program.parse:filter", "statements other than blank lines and comments are dropped",
                      "Program.parse leaves out statements under `%s`: every statement of the text, INCLUDEs named twice included, belongs to the program" % why, repo.loc(pp, lp))
        else:
            c.ok("Program.parse:filter", "keeps every statement that is not blank or a comment", repo.loc(pp, lp))
    # INCLUDE operands are resolved against the directory the assembler was started in: nobody changes it
    for rel_ in ("assembler.py",):
        try:
            fm = repo.func(rel_, "main")
        except Exception:
            fm = None
        if fm is not None:
            ch = [x for x in ast.walk(fm.module.tree) if isinstance(x, ast.Call) and U(x.func) in ("os.chdir", "chdir")]
            if ch:
                c.finding("%s:chdir" % rel_, "the working directory is changed before assembling",
                          "%s calls %s: INCLUDE operands are opened as written, i.e. relative to the directory the assembler was started in; after the change they name "
                          "other files (or none)" % (rel_, U(ch[0])[:60]), "%s:%d" % (rel_, ch[0].lineno))
            else:
                c.ok("%s:chdir" % rel_, "the working directory is left alone", rel_)
    # the handler around the read catches every way a path can fail to open (missing, a directory, not permitted): OSError
    NARROW = {"FileNotFoundError", "PermissionError", "IsADirectoryError", "NotADirectoryError", "FileExistsError"}
    WIDE = {"OSError", "IOError", "EnvironmentError", "Exception", "BaseException"}
    for tr in [n for n in ast.walk(fn_flat) if isinstance(n, ast.Try)]:
        if any(isinstance(x, ast.Call) and U(x.func).endswith((".read_file", "read_assembly_contents", "open")) for b in tr.body for x in ast.walk(b)):
            names = set()
            for h in tr.handlers:
                if h.type is None:
                    names.add("BaseException")
                else:
                    names |= {U(e).split(".")[-1] for e in (h.type.elts if isinstance(h.type, ast.Tuple) else [h.type])}
            if names & WIDE:
                c.ok("process_mnemonics:read-errors", "any OSError of the read becomes a diagnostic", repo.loc(fn, tr))
            elif names and names <= NARROW:
                c.finding("process_mnemonics:read-errors", "only %s is translated" % ", ".join(sorted(names)),
                          "process_mnemonics translates only %s from reading the included file: INCLUDE of a directory or of an unreadable file raises another OSError, "
                          "which leaves the assembler as a traceback" % ", ".join(sorted(names)), repo.loc(fn, tr))
    # the chain of files being included is a collection of names: membership in a string is a substring test
    trail = params[1] if len(params) > 1 else None
    if trail:
        dflt = fn.node.args.defaults[-1] if fn.node.args.defaults else None
        stringy = isinstance(dflt, ast.Constant) and isinstance(dflt.value, str)
        for r in [n for n in ast.walk(loop) if isinstance(n, ast.Call) and U(n.func).endswith("process_mnemonics") and len(n.args) + len(n.keywords) >= 2]:
            a = r.args[1] if len(r.args) >= 2 else next((k.value for k in r.keywords if k.arg == trail), None)
            if isinstance(a, ast.JoinedStr) or (isinstance(a, ast.Call) and isinstance(a.func, ast.Attribute) and a.func.attr in ("format", "join")) or \
                    (isinstance(a, ast.BinOp) and any(isinstance(x, ast.Constant) and isinstance(x.value, str) for x in (a.left, a.right))):
                stringy = True
        member = [n for n in ast.walk(loop) if isinstance(n, ast.Compare) and isinstance(n.ops[0], (ast.In, ast.NotIn)) and U(n.comparators[0]) == trail]
        if stringy and member:
            c.finding("process_mnemonics:trail", "the inclusion chain is a string and is searched with `in`",
                      "process_mnemonics keeps the files being included as one string and tests `%s`: that is a substring test, so including a.asm from inside data.asm "
                      "(or any file whose name occurs inside a name already on the chain) is rejected as a cycle" % U(member[0]), repo.loc(fn, member[0]))
        elif member:
            c.ok("process_mnemonics:trail", "the chain is a collection of names", repo.loc(fn, member[0]))
        # a file found on the chain is a cycle, and a cycle is reported: an INCLUDE that is skipped instead assembles a program the source does not describe, without a word
        for m_ in member:
            guard = next((n for n in ast.walk(loop) if isinstance(n, ast.If) and any(x is m_ for x in ast.walk(n.test))), None)
            if guard is None:
                continue
            on_cycle = guard.body if isinstance(m_.ops[0], ast.In) and not any(isinstance(x, ast.UnaryOp) and isinstance(x.op, ast.Not) for x in ast.walk(guard.test)) else None
            if on_cycle is None:
                continue
            ends = on_cycle[-1]
            if any(isinstance(x, ast.Raise) for st_ in on_cycle for x in ast.walk(st_)):
                c.ok("process_mnemonics:cycle", "a file already on the chain is reported", repo.loc(fn, guard))
            elif isinstance(ends, (ast.Continue, ast.Pass, ast.Break)) and not any(isinstance(x, ast.Call) for st_ in on_cycle for x in ast.walk(st_)):
                c.finding("process_mnemonics:cycle", "an INCLUDE of a file already on the chain is skipped (%s)" % type(ends).__name__.lower(),
                          "process_mnemonics meets `%s` with `%s`: the INCLUDE line contributes nothing and nothing is reported - a file that includes itself (or a -> b -> a) "
                          "assembles to an image with exit status 0 instead of a diagnostic" % (U(guard.test)[:50], type(ends).__name__.lower()), repo.loc(fn, guard))
            else:
                c.undecided("process_mnemonics:cycle", "cycle-branch-shape-not-recognised", U(ends)[:60], repo.loc(fn, guard))
        # what stands for a file on the chain identifies the file: its last path component, its stem or its case-folded name is shared by different files
        COARSE = ("basename", "splitext", "lower", "upper", "casefold", "stem", "rsplit", "split", "rpartition")
        for m_ in member:
            key = m_.left
            srcs = [key] + [b_.value for b_ in ast.walk(loop) if isinstance(b_, ast.Assign) and any(U(t_) == U(key) for t_ in b_.targets)]
            coarse = [x for e_ in srcs for x in ast.walk(e_) if (isinstance(x, ast.Call) and isinstance(x.func, ast.Attribute) and x.func.attr in COARSE)
                      or (isinstance(x, ast.Attribute) and x.attr in ("stem", "name") and not U(x).startswith(("self.", "cls.")) and isinstance(x.ctx, ast.Load) and "Path" in U(x))]
            if coarse:
                c.finding("process_mnemonics:trail-identity", "files on the chain are identified by %s" % U(coarse[0])[:50],
                          "process_mnemonics tests `%s` for the cycle check: two different files that share that part of their name (lib/defs.asm included from defs.asm) are taken "
                          "for one, and a program without any cycle is rejected" % U(m_)[:70], repo.loc(fn, m_))
            else:
                c.ok("process_mnemonics:trail-identity", "files are identified by the name they are included by", repo.loc(fn, m_))
    # a source is text in whatever the host uses; narrowing the codec to ASCII makes a comment with an accented letter a UnicodeDecodeError (a ValueError, which none of
    # the handlers around reading a source or an INCLUDE file catch)
    rc0 = repo.method("SourceFile", "read_assembly_contents")
    for x in ast.walk(rc0.node):
        if isinstance(x, ast.Call) and U(x.func) in ("open", "io.open", "codecs.open"):
            kw_ = {k.arg: try_fold(k.value, ctx.env) for k in x.keywords if k.arg}
            enc_ = kw_.get("encoding")
            if isinstance(enc_, str) and enc_.lower().replace("_", "-") in ("ascii", "us-ascii") and kw_.get("errors", "strict") == "strict":
                c.finding("SourceFile.read_assembly_contents:codec", "the source is decoded as strict %s" % enc_,
                          "read_assembly_contents opens the file with encoding=%r and strict error handling: one character outside 7-bit ASCII anywhere in the main source or an INCLUDE file "
                          "(an accented name in a comment) raises UnicodeDecodeError, which is not an OSError - the assembler ends in a traceback" % enc_, repo.loc(rc0, x))
    # the whole file is read
    rc = repo.method("SourceFile", "read_assembly_contents")
    for x in ast.walk(rc.node):
        if isinstance(x, ast.Call) and isinstance(x.func, ast.Attribute) and x.func.attr in ("readlines", "read", "readline"):
            limited = bool(x.args or x.keywords) or x.func.attr == "readline"
            if limited:
                c.finding("SourceFile.read_assembly_contents", "reads only part of the file: %s" % U(x)[:50],
                          "read_assembly_contents calls %s: a size hint makes readlines stop after about that many bytes, so a source (or included) file longer than that is "
                          "assembled from its beginning only, with no diagnostic" % U(x)[:60], repo.loc(rc, x))
            else:
                c.ok("SourceFile.read_assembly_contents", "reads the whole file", repo.loc(rc, x))


def txt1(ctx, c):
    """TXT rules on the line pattern and its use."""
    repo = ctx.repo
    pl = repo.method("Statement", "parse_line")
    wp = repo.loc(pl, pl.node)
    from ..inline import flatten as _fl3
    t = U(_fl3(repo, pl, depth=2))
    # the key the instruction is looked up by: an expression that is (or was assigned from) an upper-cased mnemonic field
    pl_f0 = _fl3(repo, pl, depth=2)
    keys = []
    for n in ast.walk(pl_f0):
        if isinstance(n, ast.Compare) and len(n.ops) == 1 and isinstance(n.ops[0], ast.Eq) and any(re.fullmatch(r"\w+\.mnemonic", U(x)) for x in (n.left, n.comparators[0])):
            other = n.comparators[0] if re.fullmatch(r"\w+\.mnemonic", U(n.left)) else n.left
            if not re.fullmatch(r"\w+\.mnemonic", U(other)) or U(other).startswith("self."):
                keys.append(other)
        if isinstance(n, ast.Call) and isinstance(n.func, ast.Attribute) and n.func.attr == "get" and n.args and "mnemonic" in U(n.args[0]).lower() and U(n.func.value).isupper():
            keys.append(n.args[0])
        if isinstance(n, ast.Subscript) and isinstance(n.ctx, ast.Load) and U(n.value).isupper() and "mnemonic" in U(n.slice).lower():
            keys.append(n.slice)
    raw_key = None
    for k_ in keys:
        srcs = [k_] + [b_.value for b_ in ast.walk(pl_f0) if isinstance(b_, ast.Assign) and any(U(t_) == U(k_) for t_ in b_.targets)]
        if not any(isinstance(x, ast.Call) and isinstance(x.func, ast.Attribute) and x.func.attr in ("upper", "casefold", "lower") for e_ in srcs for x in ast.walk(e_)) \
                and any(re.search(r"group\('mnemonic'\)", U(e_)) for e_ in srcs):
            raw_key = k_
    if raw_key is not None:
        c.finding("parse_line:mnemonic-case", "the instruction is looked up by the mnemonic as typed (%s)" % U(raw_key)[:40],
                  "parse_line finds the instruction by `%s`, the mnemonic field as written: a mnemonic in another letter case than the table provides for (Lda, lDA) is not found" % U(raw_key)[:60], wp)
    elif re.search(r"group\('mnemonic'\)\.upper\(\)", t) or re.search(r"mnemonic\w*\.upper\(\)", t):
        c.ok("parse_line:mnemonic-case", "mnemonic upper-cased before lookup", wp)
    elif re.search(r"self\.mnemonic = \w+\.group\('mnemonic'\)( or '')?\n", t) and ".upper()" not in t:
        c.finding("parse_line:mnemonic-case", "mnemonic not upper-cased", "parse_line looks the mnemonic up without folding it to upper case", wp)
    else:
        c.undecided("parse_line:mnemonic-case", "shape-not-recognised", "", wp)
    c.shape(re.search(r"for (\w+) in INSTRUCTIONS if \1\.mnemonic == ", t) is not None or re.search(r"for (\w+) in INSTRUCTIONS:\s+if \1\.mnemonic == ", t) is not None,
            "parse_line:lookup", "first table row with that mnemonic", "instruction lookup not recognised", wp)
    # everything that depends on WHICH instruction a line holds is decided from the looked-up instruction (or the upper-cased mnemonic), never from the mnemonic as typed
    raw_cmp = [n for n in ast.walk(pl_f0) if isinstance(n, ast.Compare) and len(n.ops) == 1 and isinstance(n.ops[0], (ast.Eq, ast.NotEq, ast.In, ast.NotIn))
               and re.search(r"group\('mnemonic'\)$", U(n.left)) and not any(isinstance(x, ast.Call) and isinstance(x.func, ast.Attribute) and x.func.attr in ("upper", "casefold") for x in ast.walk(n.left))
               and isinstance(try_fold(n.comparators[0]), (str, list, tuple))]
    if raw_cmp:
        c.finding("parse_line:mnemonic-as-typed", "a branch is taken on the mnemonic as typed (%s)" % U(raw_cmp[0])[:50],
                  "parse_line decides `%s` on the mnemonic field as written: a line that spells the mnemonic in lower or mixed case takes the other branch, so changing the letter case of "
                  "a mnemonic changes how its operand is read" % U(raw_cmp[0])[:70], repo.loc(pl, raw_cmp[0]))
    # the operand field reaches the operand classes as written: symbols are case sensitive
    pl_flat_ = _fl3(repo, pl, depth=2)
    opvars = {U(n.targets[0]) for n in ast.walk(pl_flat_) if isinstance(n, ast.Assign) and isinstance(n.targets[0], ast.Name) and re.search(r"group\('operands'\)", U(n.value))}
    for n in ast.walk(pl_flat_):
        if isinstance(n, ast.Assign) and isinstance(n.targets[0], ast.Tuple) and isinstance(n.value, ast.Tuple) and len(n.targets[0].elts) == len(n.value.elts):
            for e_, v_ in zip(n.targets[0].elts, n.value.elts):
                if isinstance(e_, ast.Name) and re.search(r"group\('operands'\)", U(v_)):
                    opvars.add(e_.id)
    cased = [n for n in ast.walk(pl_flat_) if isinstance(n, ast.Call) and isinstance(n.func, ast.Attribute) and n.func.attr in ("upper", "lower", "casefold", "swapcase", "title", "capitalize")
             and (re.search(r"group\('operands'\)", U(n.func.value)) or U(n.func.value) in opvars)]
    if cased:
        c.finding("parse_line:operand-case", "the operand field is case-changed (%s)" % U(cased[0])[:40],
                  "parse_line applies %s to the operand field: labels are case sensitive, so a reference to `table` becomes a reference to `TABLE`, which is another symbol or none"
                  % U(cased[0])[:50], repo.loc(pl, cased[0]))
    else:
        c.ok("parse_line:operand-case", "the operand field is passed on as written", wp)
    # ... and whole: whatever stands in the operand column is the operand, for every instruction; text dropped or moved into the comment on the way is an operand the
    # instruction's mode checks never see (CLRA #5 assembles as CLRA)
    all_binds = {}
    for n in ast.walk(pl_flat_):
        if isinstance(n, ast.Assign):
            for t_ in n.targets:
                for e_ in (t_.elts if isinstance(t_, ast.Tuple) else [t_]):
                    if isinstance(e_, ast.Name):
                        all_binds.setdefault(e_.id, []).append(n)
    for call in [n for n in ast.walk(pl_flat_) if isinstance(n, ast.Call) and U(n.func) == "Operand.create_from_str" and n.args]:
        a0 = call.args[0]
        if isinstance(a0, ast.Name) and a0.id in opvars and len(all_binds.get(a0.id, [])) > 1:
            others = [b_ for b_ in all_binds[a0.id] if not re.search(r"group\('operands'\)", U(b_.value))]
            blank = [b_ for b_ in others if re.search(r"(^|[ ,(=])(''|\"\")", U(b_.value))]
            # text of the comment field that finds its way into the operand (outside the FCC arm, which reassembles its string on purpose)
            tainted = set()
            changed_ = True
            while changed_:
                changed_ = False
                for b_ in ast.walk(pl_flat_):
                    if isinstance(b_, ast.Assign):
                        src_t = re.search(r"group\('comment'\)", U(b_.value)) or any(isinstance(x, ast.Name) and x.id in tainted for x in ast.walk(b_.value))
                        if src_t:
                            for t_ in b_.targets:
                                for e_ in (t_.elts if isinstance(t_, ast.Tuple) else [t_]):
                                    if isinstance(e_, ast.Name) and e_.id not in tainted and e_.id != a0.id:
                                        tainted.add(e_.id)
                                        changed_ = True
            def _elt_for(b_, name_):
                if isinstance(b_.targets[0], ast.Tuple) and isinstance(b_.value, ast.Tuple) and len(b_.targets[0].elts) == len(b_.value.elts):
                    return next((v_ for e_, v_ in zip(b_.targets[0].elts, b_.value.elts) if isinstance(e_, ast.Name) and e_.id == name_), b_.value)
                return b_.value
            leak = [b_ for b_ in others if any(isinstance(x, ast.Name) and x.id in tainted for x in ast.walk(_elt_for(b_, a0.id)))]
            in_fcc = lambda b_: any(isinstance(i_, ast.If) and "is_string_define" in U(i_.test) and any(x is b_ for s_ in i_.body for x in ast.walk(s_)) for i_ in ast.walk(pl_flat_))
            leak = [b_ for b_ in leak if not in_fcc(b_)]
            if leak:
                c.finding("parse_line:operand-whole", "text of the comment field is appended to the operand (%s)" % U(leak[0])[:50],
                          "parse_line rebinds the operand text by `%s`, which takes words from the comment field: a comment is then not inert - changing or removing it changes the bytes "
                          "emitted or whether the line is accepted" % U(leak[0])[:70], repo.loc(pl, call))
            elif blank:
                c.finding("parse_line:operand-whole", "the operand field is replaced before it reaches the operand classes (%s)" % U(blank[0])[:50],
                          "parse_line rebinds the operand text by `%s` before Operand.create_from_str sees it: what the source has in the operand column is then not checked against "
                          "the instruction's addressing modes" % U(blank[0])[:70], repo.loc(pl, call))
            else:
                c.undecided("parse_line:operand-whole", "the operand text is rebound on the way", U(others[0])[:80] if others else "", repo.loc(pl, call))
        elif re.search(r"group\('operands'\)", U(a0)) or (isinstance(a0, ast.Name) and a0.id in opvars):
            c.ok("parse_line:operand-whole", "the operand column reaches Operand.create_from_str as matched", repo.loc(pl, call))
        else:
            # an operand cut out of the raw line by other means than the line pattern: it ends where that code says, not where every other line's operand ends
            line_param = [p_ for p_ in pl.params if p_ != "self"][:1]
            names0 = {x.id for x in ast.walk(a0) if isinstance(x, ast.Name)}
            srcs0 = [a0] + [b_.value for nm_ in names0 for b_ in all_binds.get(nm_, [])]
            raw = [e_ for e_ in srcs0 if any(isinstance(x, ast.Name) and x.id in line_param for x in ast.walk(e_)) or re.search(r"\.(end|start|span)\(", U(e_))]
            in_fcc0 = any(isinstance(i_, ast.If) and "is_string_define" in U(i_.test) and any(x is call for s_ in i_.body for x in ast.walk(s_)) for i_ in ast.walk(pl_flat_))
            if raw and not in_fcc0:
                c.finding("parse_line:operand-whole", "an operand is cut out of the raw line (%s)" % U(raw[0])[:50],
                          "parse_line hands Operand.create_from_str a text taken from the raw line by `%s` instead of the operand field of the line pattern: for that kind of line the "
                          "operand no longer ends at the first blank, so what every other line treats as a comment becomes part of the operand" % U(raw[0])[:70], repo.loc(pl, call))
    # every character of a source line reaches the line pattern: a line cut at a fixed column loses operand text as soon as more white space pushes it there
    pp = repo.method("Program", "parse")
    for call in [n for n in ast.walk(pp.node) if isinstance(n, ast.Call) and U(n.func) == "Statement" and n.args]:
        a0 = call.args[0]
        srcs = [a0]
        if isinstance(a0, ast.Name):
            srcs += [b_.value for b_ in ast.walk(pp.node) if isinstance(b_, ast.Assign) and any(U(t_) == a0.id for t_ in b_.targets)]
        cut = [x for e_ in srcs for x in ast.walk(e_) if isinstance(x, ast.Subscript) and isinstance(x.slice, ast.Slice) and (x.slice.upper is not None or x.slice.lower is not None)]
        cut += [x for e_ in srcs for x in ast.walk(e_) if isinstance(x, ast.Call) and isinstance(x.func, ast.Attribute) and x.func.attr in ("ljust", "rjust", "center", "expandtabs", "split", "partition")]
        if cut:
            c.finding("Program.parse:line-whole", "a source line is cut before it is parsed (%s)" % U(cut[0])[:40],
                      "Program.parse hands `%s` to Statement: text beyond the cut is ignored, so a long FCB/FDB/FCC operand loses its end when white space between the fields grows, "
                      "and nothing is reported" % U(cut[0])[:60], repo.loc(pp, call))
        elif isinstance(a0, ast.Name) and len(srcs) == 1:
            c.ok("Program.parse:line-whole", "each line is parsed as read", repo.loc(pp, call))
    # a label is whatever stands in column 1: no spelling of it is refused (renaming labels consistently must not change whether a program assembles)
    lab_guard = [n for n in ast.walk(pl_flat_) if isinstance(n, ast.If) and n.body and isinstance(n.body[-1], ast.Raise)
                 and re.search(r"self\.label\b|group\('label'\)", U(n.test)) and not re.fullmatch(r"(not )?self\.label", U(n.test))]
    if lab_guard:
        c.finding("parse_line:label-spelling", "a line is refused for the text of its label (%s)" % U(lab_guard[0].test)[:50],
                  "parse_line raises when `%s`: labels are positional and any name is a label, so a program that assembles stops assembling when its labels are renamed to such names"
                  % U(lab_guard[0].test)[:80], repo.loc(pl, lab_guard[0]))
    else:
        c.ok("parse_line:label-spelling", "no label name is refused", wp)
    mod = repo.cls("Statement").module
    node = mod.assigns.get("ASM_LINE_REGEX")
    pat = try_fold(node.args[0]) if isinstance(node, ast.Call) and node.args else None
    if not isinstance(pat, str):
        c.undecided("ASM_LINE_REGEX", "pattern-not-constant", "", mod.rel)
        return
    rx = re.compile(pat)
    samples = [
        ("LABEL  LDA   #$10   ; comment", ("LABEL", "LDA", "#$10")),
        ("L\tlda\t#$10", ("L", "lda", "#$10")),
        ("  NOP", ("", "NOP", "")),
        ("   JMP     START        jump there", ("", "JMP", "START")),
        ("X@1 LDA [$10,X] ;c", ("X@1", "LDA", "[$10,X]")),
        ("   LDA   ,X++", ("", "LDA", ",X++")),
        ("   LDA   -5,Y", ("", "LDA", "-5,Y")),
    ]
    bad = []
    for line, want in samples:
        m = rx.match(line + "\n")
        got = (m.group("label"), m.group("mnemonic"), m.group("operands")) if m else None
        if got != want:
            bad.append((line, got))
    c.check(not bad, "ASM_LINE_REGEX", "splits label / mnemonic / operands for any amount of white space", "mis-splits %s" % bad[:2],
            "the line pattern splits %r into %r" % (bad[0] if bad else ("", "")), "%s:%d" % (mod.rel, node.lineno))
    # every character of the operand alphabet (README grammar) is kept inside the operands field
    REF_OPERAND_CHARS = "AZaz09_@[]><'\":,.#?$%^&*()=!+-/"
    lost = []
    for ch in REF_OPERAND_CHARS:
        m = rx.match("L LDA X" + ch + "Y\n")
        if not m or m.group("operands") != "X" + ch + "Y":
            lost.append(ch)
    c.check(not lost, "ASM_LINE_REGEX:operand-alphabet", "every operand character stays in the operands field", "characters %s end the operands field" % lost,
            "the line pattern ends the operands field at %s: an operand or FCC string containing it is split into operand and comment" % lost, "%s:%d" % (mod.rel, node.lineno))
    # comment flows only into self.comment (non-FCC)
    uses = [n for n in ast.walk(pl.node) if isinstance(n, ast.Call) and U(n.func) == "data.group" and n.args and try_fold(n.args[0]) == "comment"]
    c.floor("comment group uses", len(uses), 2)
    # TXT-4 charset agreement label vs symbol vs expression
    vmod = repo.cls("Value").module
    sym = try_fold(vmod.assigns["SYMBOL_REGEX"].args[0]) if "SYMBOL_REGEX" in vmod.assigns else None
    exp = try_fold(vmod.assigns["EXPRESSION_REGEX"].args[0]) if "EXPRESSION_REGEX" in vmod.assigns else None
    if sym and exp:
        srx, erx = re.compile(sym), re.compile(exp)
        # one probe per kind of name; a finding is keyed by the kind, not by the probe list
        kinds = [("letters", "AB"), ("lower-case letters", "ab"), ("mixed case", "Loop"), ("letters and digits", "A1"), ("a leading digit", "1ST"), ("an at sign", "A@B"), ("an underscore", "A_B"), ("a non-ASCII letter", "ÉT")]
        for kind, p_ in kinds:
            lab = bool(rx.match(p_ + " NOP\n") and rx.match(p_ + " NOP\n").group("label") == p_)
            symok = bool(srx.match(p_))
            expok = bool(erx.match(p_ + "+1"))
            if lab and not symok:
                c.finding("charset:label-vs-symbol:%s" % kind, "a label with %s can be defined but not referenced" % kind,
                          "the line pattern accepts the label %s, which SYMBOL_REGEX rejects as an operand (%s NOP is accepted, JMP %s is rejected): renaming a label to such a name "
                          "breaks the program" % (p_, p_, p_), vmod.rel)
            elif lab:
                c.ok("charset:label-vs-symbol:%s" % kind, "definable and referencable", vmod.rel)
            if symok and not expok:
                c.finding("charset:symbol-vs-expression:%s" % kind, "a symbol with %s cannot be used in an expression" % kind,
                          "SYMBOL_REGEX accepts %s, which EXPRESSION_REGEX rejects as a term (LDX #%s+1 is rejected)" % (p_, p_), vmod.rel)
            elif symok:
                c.ok("charset:symbol-vs-expression:%s" % kind, "usable as an expression term", vmod.rel)


def txt2(ctx, c):
    """TXT-2 every field of a line the pattern accepts is text."""
    repo = ctx.repo
    pl = repo.method("Statement", "parse_line")
    from ..inline import flatten as _fl3
    t = U(_fl3(repo, pl, depth=2))
    mod = repo.cls("Statement").module
    node = mod.assigns.get("ASM_LINE_REGEX")
    pat = try_fold(node.args[0]) if isinstance(node, ast.Call) and node.args else None
    if not isinstance(pat, str):
        c.undecided("ASM_LINE_REGEX", "pattern-not-constant", "", mod.rel)
        return
    rx = re.compile(pat)
    # a field that took no part in the match is None, not "": every field the parser reads as text must be text whenever
    # the pattern matches (lines without a trailing newline, without operands, without a label)
    nones = []
    for line in ("  RTS", " RTS\n", "TABLE FCB", "TABLE FCB\n", "L EQU", "L EQU ;c", "  NOP ", "X", "X\n", " \n", "L LDA #1"):
        m = rx.match(line)
        if m:
            for gname in ("label", "mnemonic", "operands", "comment"):
                if gname in rx.groupindex and m.group(gname) is None and not re.search(r"group\('%s'\) or " % gname, t):
                    nones.append((line, gname))
    if nones:
        c.finding("ASM_LINE_REGEX:fields-are-text", "the %s field is None for a line the pattern accepts" % nones[0][1],
                  "the line pattern matches %r with the %s field absent (None): the operand constructors treat the field as a string (`',' in operand`, "
                  ".startswith) and die with TypeError / AttributeError, which parse_line does not translate" % nones[0], "%s:%d" % (mod.rel, node.lineno))
    else:
        c.ok("ASM_LINE_REGEX:fields-are-text", "every field of a matching line is a string", "%s:%d" % (mod.rel, node.lineno))


def exp2(ctx, c):
    """EXP-2 (C12 only: C04 allows reduction modulo 65536) no arithmetic result is silently wrapped before the range check of NumericValue."""
    repo = ctx.repo
    found = False
    # a result is not reduced modulo 2^16 / 2^8 before it reaches NumericValue, whose range check is the only one these expressions have
    for m in repo.cls("ExpressionValue").methods.values():
        for x in ast.walk(m.node):
            if isinstance(x, ast.BinOp) and isinstance(x.op, (ast.BitAnd, ast.Mod)):
                k = try_fold(x.right, ctx.env)
                arith = any(isinstance(y, ast.BinOp) and isinstance(y.op, (ast.Add, ast.Sub, ast.Mult, ast.Div, ast.FloorDiv)) for y in ast.walk(x.left))
                if arith and ((isinstance(x.op, ast.BitAnd) and k in (0xFFFF, 0xFF)) or (isinstance(x.op, ast.Mod) and k in (0x10000, 0x100))):
                    c.finding("%s:wrap" % m.q, "an arithmetic result is reduced with %s %#x" % ("&" if isinstance(x.op, ast.BitAnd) else "%", k),
                              "%s computes `%s`: a result that does not fit the field wraps around silently ($FFFF+2 becomes 1) instead of being rejected as out of range"
                              % (m.q, U(x)[:60]), repo.loc(m, x))
                    found = True
                    break
    if not found:
        c.ok("ExpressionValue:wrap", "no result is reduced modulo 2^8 / 2^16 before the range check", repo.cls("ExpressionValue").module.rel)
    # a division by zero has no value: it must end in an exception (Statement.resolve_symbols turns it into a diagnostic), not in a number
    from ..consteval import fold as _fz, NotConst as _Nz
    for m in repo.cls("ExpressionValue").methods.values():
        parents = {}
        for x in ast.walk(m.node):
            for ch in ast.iter_child_nodes(x):
                parents[ch] = x
        for x in ast.walk(m.node):
            if isinstance(x, ast.BinOp) and isinstance(x.op, (ast.Div, ast.FloorDiv, ast.Mod)) and isinstance(x.right, ast.Name) and isinstance(x.left, ast.Name):
                top = x
                while isinstance(parents.get(top), (ast.BinOp, ast.IfExp, ast.BoolOp, ast.UnaryOp)) or (
                        isinstance(parents.get(top), ast.Call) and U(parents[top].func) in ("int", "round", "abs", "math.floor", "math.trunc")):
                    top = parents[top]
                try:
                    v = _fz(top, {x.left.id: 7, x.right.id: 0, "int": int})
                except (_Nz, ZeroDivisionError, Exception):
                    c.ok("%s:division-by-zero" % m.q, "n / 0 has no value: the evaluation raises", repo.loc(m, x))
                    continue
                c.finding("%s:division-by-zero" % m.q, "7 / 0 evaluates to %r" % (v,),
                          "%s computes `%s`, which gives %r for a zero divisor: a division by zero is assembled as if it had a value instead of being reported" % (m.q, U(top)[:60], v),
                          repo.loc(m, x))


def dir4(ctx, c):
    """DIR-4 the part of DIR-1 that concerns symbols and constants in EQU / data directives (used by C04)."""
    from ..report import Collector
    tmp = ctx.cache.get(("rule", "DIR-1"))
    if tmp is None:
        tmp = Collector("DIR-1")
        dir1(ctx, tmp)
    for i in tmp.insts:
        if i.site.startswith("PseudoOperand.__init__:EQU") or i.site.startswith("PseudoOperand.resolve_symbols") or i.site.endswith(":element-type") or i.site.endswith(":elements"):
            j = type(i)(*[getattr(i, k) for k in i.__slots__]) if hasattr(i, "__slots__") else i
            c.insts.append(j)

RULES = {"DIR-4": dir4, "EXP-2": exp2, "TXT-2": txt2, "LAY-0": lay0, "LAY-1": lay1, "LAY-3": lay3, "EXP-1": exp1, "DIR-1": dir1, "INC-1": inc1, "TXT-1": txt1}
