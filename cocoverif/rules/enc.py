"""ENC rules: path facts of the two indexed encoders and of SpecialOperand against the MC6809 post-byte tables."""
import ast
import re

from ..model import U, AnalysisError, body_without_doc
from ..absint import Interp, Ctor, Bits, Lin, Const, Opq, PathCap, candidates, parse_atom, strip_ver
from ..refs import mc6809
from ..consteval import try_fold as try_fold_

REGS = "XYUS"
PLAIN = list(REGS)
GRAMMAR_RIGHT = PLAIN + [r + "+" for r in REGS] + [r + "++" for r in REGS] + ["-" + r for r in REGS] + ["--" + r for r in REGS] + ["PCR"]
PROBES_RIGHT = ["", "Z", "PC", "XY", "W", "DP", "X-", "+X", "XS", "PCRX", "x"]


def probe_category(p):
    """coarse class of a register-half spelling outside the grammar (keys must not depend on how many probes a tier tries)"""
    import re as _re
    if p in ("", "(empty)"):
        return "empty"
    if _re.fullmatch(r"[a-z]+[+-]*", p):
        return "lower-case"
    core = p.strip("+- ")
    if _re.search(r"[+-]", p) and (p.count("+") > 2 or p.count("-") > 2 or ("+" in p and "-" in p) or _re.fullmatch(r"[+]+\w+|\w+[-]+", p) or core in ("PC", "PCR")):
        return "malformed-inc/dec"
    if core in ("PC", "DP", "CC", "A", "B", "D", "SP", "IX"):
        return "non-index-register"
    if len([ch for ch in core if ch in "XYUS"]) >= 2 and "PCR" not in core:
        return "two-registers"
    if _re.fullmatch(r"[A-Z]", core) and core not in "XYUS":
        return "unknown-letter"
    return "extra-characters"
LEFT_UNIVERSE = ["", "A", "B", "D", "<val>"]
THOROUGH_PROBES = ["x", "y", "pcr", "PC+", "-PC", "X++ ", " X", "X,", "Y--", "++X", "--X+", "X+++", "---X", "U+S", "SP", "IX", "R", "A", "B", "D", "PCR+", "-PCR", "PCRR", "XPCR"]


def reg_form(s):
    """grammar spelling -> (form, register) for the empty-offset family"""
    if s in PLAIN:
        return ",R", s
    if s.endswith("++"):
        return ",R++", s[0]
    if s.endswith("+"):
        return ",R+", s[0]
    if s.startswith("--"):
        return ",--R", s[2]
    if s.startswith("-"):
        return ",-R", s[1]
    return None, None


def av_int(av, n):
    """evaluate an abstract integer that depends on one '.int' symbol at n; None if not evaluable"""
    if isinstance(av, Const) and isinstance(av.v, int):
        return av.v
    if isinstance(av, Opq) and strip_ver(av.text).endswith(".int"):
        return n
    if isinstance(av, Lin):
        if all(strip_ver(k).endswith(".int") for k in av.terms) and len(av.terms) <= 1:
            return sum(c * n for c in av.terms.values()) + av.c
    return None


def post_of(v):
    """post_byte kw -> (mask, opaque list) or None"""
    if isinstance(v, Ctor) and v.cls == "NumericValue" and v.args:
        b = v.args[0]
        if isinstance(b, Bits):
            return b.mask, list(b.opaque)
        if isinstance(b, Const) and isinstance(b.v, int):
            return b.v, []
    return None


def lin_inc(v, sym):
    """Lin(sym + c) -> c; None otherwise"""
    if isinstance(v, Lin) and set(v.terms) == {sym} and v.terms[sym] == 1:
        return v.c
    return None


def width_of(v, lo, hi):
    """abstract width in bytes of the `additional` value: int | 'dyn' | 'self' | None(no bytes)"""
    if v is None:
        return 0
    if isinstance(v, Ctor):
        if v.cls == "NoneValue":
            return 0
        if v.cls in ("NumericValue", "ExtendedNumericValue", "DirectNumericValue"):
            h = v.kw.get("size_hint")
            if isinstance(h, Const) and isinstance(h.v, int):
                return h.v // 2
            if v.cls == "ExtendedNumericValue":
                return 2
            a = v.args[0] if v.args else None
            if a is not None and lo is not None:
                ws = set()
                for n in (lo, hi, (lo + hi) // 2):
                    x = av_int(a, n)
                    if x is None or x < 0:
                        return "dyn"
                    ws.add((len("%x" % x) + 1) // 2)
                return ws.pop() if len(ws) == 1 else "dyn"
            if isinstance(a, Const) and isinstance(a.v, int):
                return (len("%x" % a.v) + 1) // 2
            return "dyn"
    return "dyn"


def value_range(true_atoms, false_atoms):
    """range of |n| implied by the sign/width predicate atoms (reference bounds), and sign"""
    def has(sfx, s):
        return any(a.endswith(sfx) for a in s)
    neg = has(".is_negative()", true_atoms)
    lo, hi = (1, 32768) if neg else (0, 65535)
    b4max, b8max = (16, 128) if neg else (15, 127)
    if has(".is_4_bit()", true_atoms):
        hi = min(hi, b4max)
    if has(".is_4_bit()", false_atoms):
        lo = max(lo, b4max + 1)
    if has(".is_8_bit()", true_atoms):
        hi = min(hi, b8max)
    if has(".is_8_bit()", false_atoms):
        lo = max(lo, b8max + 1)
    known = any(has(x, true_atoms) or has(x, false_atoms) for x in (".is_4_bit()", ".is_8_bit()", ".is_16_bit()"))
    if has(".is_16_bit()", false_atoms) and has(".is_8_bit()", false_atoms) and not has(".is_4_bit()", true_atoms):
        known = False      # every numeric predicate is false: the offset is not numeric at translate time (symbolic arm)
    if has(".is_16_bit()", true_atoms):
        lo = max(lo, b8max + 1)
    return neg, lo, hi, known


class ValTok:
    """stands for `self.left` holding a Value object (not a string): equal to no string, member of no table"""
    def __repr__(self):
        return "<value>"


VAL = ValTok()
LEFT_KINDS = ["", "A", "B", "D", VAL]


def make_resolver(repo, fn):
    from ..inline import _callee

    def resolve(call):
        callee, bound = _callee(repo, fn, call)
        if callee is None:
            return None
        params = [a.arg for a in callee.node.args.args]
        if params and params[0] in ("self", "cls"):
            params = params[1:]
        return callee.node, params
    return resolve


def analyse_class(ctx, cls, indirect):
    """for every (register half, offset kind) of the finite operand grammar plus probe spellings: the outcomes of translate()"""
    from ..inline import flatten
    fn = ctx.repo.method(cls, "translate", inherited=False)
    node = flatten(ctx.repo, fn, depth=2)
    cap = 4000 if ctx.tier == "quick" else 100000
    consts = dict(ctx.env)
    consts.update({"str": str, "int": int, "list": list})
    consts.update(ctx.self_env(cls))
    resolver = make_resolver(ctx.repo, fn)
    results = []
    rights = GRAMMAR_RIGHT + PROBES_RIGHT
    if ctx.tier == "thorough":
        rights = rights + THOROUGH_PROBES
    for right in rights:
        for left in LEFT_KINDS:
            it = Interp(node, consts=consts, sym_attrs=("_sz",), maxpaths=cap, resolver=resolver, strict_unknown=False,
                        init_env={"self.right": Const(right), "self.left": Const(left)})
            for o in it.run():
                results.append((right, left, o))
    return fn, results


def _cached(ctx, cls, indirect):
    return ctx.memo(("enc", cls), lambda: analyse_class(ctx, cls, indirect))


def _judge(ctx, c_enc1, c_enc2, c_enc3, c_enc4, c_enc6, cls, indirect):
    repo = ctx.repo
    try:
        fn, res = _cached(ctx, cls, indirect)
    except PathCap as e:
        for c in (c_enc1, c_enc2, c_enc3, c_enc4, c_enc6):
            if c:
                c.undecided("%s.translate" % cls, "path-cap", str(e))
        return
    site0 = "%s.translate" % cls
    where0 = repo.loc(fn, fn.node)
    IND = mc6809.INDIRECT_BIT if indirect else 0
    forms_reached = set()
    invalid_accepted = {}
    n_paths = 0
    seen = {}

    n_open = [0]

    def emit(c, verdict, site, fact, text="", where=""):
        if verdict not in ("ok", "finding"):
            n_open[0] += 1      # counted whichever rule is being collected: an open question anywhere makes "form not reachable" unsafe to conclude
        if c is None:
            return
        k = (id(c), site, fact, verdict)
        if k in seen:
            return
        seen[k] = where
        if verdict == "ok":
            c.ok(site, fact, where)
        elif verdict == "finding":
            c.finding(site, fact, text, where)
        else:
            c.undecided(site, fact, text, where)

    for right, left, o in res:
        if o.kind != "return":
            continue
        v = o.value
        where = repo.loc(fn, o.node)
        if o.path.unk:
            # a branch was taken both ways because the interpreter cannot evaluate its condition: this outcome may be infeasible
            for cc in (c_enc1, c_enc2, c_enc3, c_enc4, c_enc6):
                emit(cc, "undecided", site0, "condition-not-evaluable", "%s: `%s` is of a shape the interpreter does not model" % (cls, strip_ver(o.path.unk[0])[:80]), where)
            continue
        if not (isinstance(v, Ctor) and v.cls == "CodePackage"):
            emit(c_enc1, "undecided", site0, "return-not-CodePackage", repr(v)[:80], where)
            continue
        n_paths += 1
        kw = v.kw
        ta, fa = o.path.true_atoms(), o.path.false_atoms()
        post = post_of(kw.get("post_byte"))
        size_inc = lin_inc(kw.get("size"), "ind_sz")
        size_dyn = size_inc is None and re.search(r"\b(byte_len|hex_len)\(", repr(kw.get("size"))) is not None
        max_inc = lin_inc(kw.get("max_size"), "ind_sz")
        if isinstance(kw.get("size"), Const) and isinstance(kw.get("size").v, int):
            # the size no longer contains the instruction's own ind_sz: it was overwritten (size = 2) instead of increased
            emit(c_enc2, "finding", site0 + ":size-constant", "a return path reports the constant size %d" % kw.get("size").v,
                 "%s.translate() has a path (operand %s%s) that returns size=%d, a constant that does not include the opcode and post-byte bytes (mode.ind_sz): every statement after it is "
                 "placed too low and every displacement across it is short" % (cls, "<value>," if left is VAL else ("%s," % left if left else ","), right, kw.get("size").v), where)
            continue
        anr = kw.get("additional_needs_resolution")
        anr = anr.v if isinstance(anr, Const) else (False if anr is None else None)
        choices = kw.get("post_byte_choices")
        choices = choices.v if isinstance(choices, Const) else ([] if choices is None else None)
        add = kw.get("additional")
        uses_lr = any(("self.left" in a or "self.right" in a) for a, _ in o.path.conds) or any(
            "self.left" in repr(x) or "self.right" in repr(x) for x in kw.values())
        early_value = any(strip_ver(a).startswith("self.value.is_") and t for a, t in o.path.conds)

        # ---- [n] extended indirect: decided on self.value alone
        if indirect and early_value and (isinstance(add, Opq) and add.text.startswith("self.value") or isinstance(add, Ctor)):
            forms_reached.add("[n]")
            site = site0 + ":[n]"
            if isinstance(add, Ctor) and add.args and re.fullmatch(r"<self\.value(@\d+)?\.int>", repr(add.args[0])):
                for cc in (c_enc1, c_enc6):
                    emit(cc, "finding", site + ":sign", "the address of [n] is rebuilt from the magnitude of the value (sign dropped)",
                         "%s: extended indirect [expr] emits %s(self.value.int, ...): .int is the magnitude only, so an expression that comes out negative ([J-K]) is encoded as its "
                         "absolute value" % (cls, add.cls), where)
            if post is None or post[1]:
                emit(c_enc1, "undecided", site, "post-byte-not-constant", repr(kw.get("post_byte")), where)
            else:
                emit(c_enc1, "ok" if post[0] == 0x9F else "finding", site, "post=%#04x" % post[0] if post[0] == 0x9F else "post=%#04x(datasheet 0x9f)" % post[0],
                     "%s: extended indirect [n] must use post-byte 9F, path emits %02X" % (cls, post[0]), where)
            if size_inc is None:
                emit(c_enc2, "undecided", site, "size-not-affine", repr(kw.get("size")), where)
            else:
                emit(c_enc2, "ok" if size_inc == 2 else "finding", site, "size+%d" % size_inc if size_inc == 2 else "size+%d(2 address bytes follow 9F)" % size_inc,
                     "%s: [n] is followed by a 16-bit address but size grows by %d" % (cls, size_inc), where)
            if max_inc is not None and size_inc is not None:
                emit(c_enc3, "ok" if max_inc == size_inc else "finding", site, "max=size" if max_inc == size_inc else "max_size+%d!=size+%d" % (max_inc, size_inc),
                     "%s: [n] returns max_size != size" % cls, where)
            continue

        zero_left = left is VAL and any(strip_ver(a) == "self.left.int == 0" and t for a, t in o.path.conds) and any(strip_ver(a) == "self.left.is_numeric()" and t for a, t in o.path.conds)
        if left is VAL and not zero_left and any(strip_ver(a) == "self.left.int == 0" and t for a, t in o.path.conds) and \
                not any(strip_ver(a) == "self.left.is_numeric()" and t for a, t in o.path.conds):
            emit(c_enc1, "finding", site0 + ":zero-offset-guard", "an offset whose .int is 0 is taken for 'no offset' without being numeric",
                 "%s.translate() treats any offset value with .int == 0 as absent; a label on the first statement (index 0) or an unresolved value also has .int 0, "
                 "so `L,PCR` / `L,X` with L on the first line is encoded as `,R`" % cls, where)
            continue
        kind = "zero" if zero_left else ("<val>" if left is VAL else left)
        f0, reg = reg_form(right)
        valid_right = right in GRAMMAR_RIGHT

        # ---- ENC-4: a return for an operand outside the grammar
        if not valid_right:
            invalid_accepted.setdefault("register-half-outside-grammar", set()).add(right or "(empty)")
            continue
        if kind in ("A", "B", "D") and right not in PLAIN:
            invalid_accepted.setdefault("accumulator-offset-with-%s" % ("PCR" if right == "PCR" else "auto-inc/dec"), set()).add("%s,%s" % (kind, right))
            continue
        if kind in ("", "zero") and right == "PCR":
            invalid_accepted.setdefault("PCR-without-offset", set()).add("%s,PCR" % ("0" if kind == "zero" else ""))
            continue
        if kind == "zero" and right not in PLAIN:
            invalid_accepted.setdefault("zero-offset-with-auto-inc/dec", set()).add("0,%s" % right)
            continue
        if indirect and kind == "" and f0 in (",R+", ",-R"):
            invalid_accepted.setdefault("indirect-single-inc/dec", set()).add("[,%s]" % right)
            continue
        if kind == "<val>" and right not in PLAIN and right != "PCR":
            invalid_accepted.setdefault("constant-offset-with-auto-inc/dec", set()).add("n,%s" % right)
            continue

        if post is None:
            emit(c_enc1, "undecided", site0, "post-byte-not-abstractable", repr(kw.get("post_byte"))[:80], where)
            continue
        mask, opaque = post
        regbits = mc6809.INDEX_REG_BITS.get(reg, 0) if reg else 0
        if kind in ("", "zero"):
            form = f0
        elif kind in ("A", "B", "D"):
            form = "%s,R" % kind
        else:
            form = "n,R" if right in PLAIN else "n,PCR"
        site = "%s:%s" % (site0, form)
        if form in mc6809.INDEXED_FORMS:
            exp_core, extra, _ = mc6809.INDEXED_FORMS[form]
            forms_reached.add(form)
            if opaque:
                emit(c_enc1, "undecided", site, "opaque-post-byte", repr(opaque)[:60], where)
                continue
            want = exp_core | regbits | IND
            emit(c_enc1, "ok" if mask == want else "finding", site + "/" + reg,
                 "post=%#04x" % want if mask == want else "post=%#04x(datasheet %#04x)" % (mask, want),
                 "%s: %s must have post-byte %02X, path emits %02X" % (cls, form.replace("R", reg), want, mask), where)
            w = width_of(add, None, None)
            _three_way(emit, c_enc2, c_enc3, site, cls, form, extra, "dyn" if size_dyn else size_inc, max_inc, w, choices, where)
            if anr:
                emit(c_enc6, "finding", site, "needs-resolution-without-offset", "%s: path for %s sets additional_needs_resolution" % (cls, form), where)
            continue
        if form == "n,R":
            neg, lo, hi, known = value_range(ta, fa)
            if anr:
                emit(c_enc6, "finding", site0 + ":label,R", "label-as-constant-offset-encoded-from-statement-index",
                     "%s: a label used as constant index offset (LDA L,X) reaches the constant-offset arms with its statement "
                     "index as magnitude and additional_needs_resolution set; fix_addresses then treats the offset as a PCR target" % cls, where)
                continue
            if anr is None:
                emit(c_enc6, "undecided", site0 + ":label,R", "needs-resolution-flag-not-constant", "", where)
                continue
            if not known:
                sitex = site0 + ":sym,R"
                forms_reached.add("sym,R")
                core = mask & ~0x60
                if opaque or core not in (0x88 | IND, 0x89 | IND):
                    emit(c_enc1, "undecided", sitex, "post=%#04x%s" % (mask, "|opaque" if opaque else ""), "", where)
                else:
                    emit(c_enc1, "ok" if (mask & 0x60) == regbits else "finding", sitex + "/" + reg, "post=%#04x" % mask,
                         "%s: register bits %02X for register %s" % (cls, mask & 0x60, reg), where)
                emit(c_enc2, "ok", sitex, "self-sized(size += additional.byte_len())", "", where)
                continue
            cls4 = hi <= (16 if neg else 15)
            cls8 = hi <= (128 if neg else 127)
            sign = "-" if neg else ""
            valclass = "n5" if cls4 else ("n8" if cls8 else "n16")
            sitev = "%s:%s%s,R" % (site0, sign, valclass)
            core = mask & ~0x60
            if not (mask & 0x80):
                chosen = "n5"
            elif core == (0x88 | IND):
                chosen = "n8"
            elif core == (0x89 | IND):
                chosen = "n16"
            else:
                chosen = "?%#04x" % core
            allowed = {"n5": ["n5", "n8", "n16"], "n8": ["n8", "n16"], "n16": ["n16"]}[valclass]
            if indirect:
                allowed = [a for a in allowed if a != "n5"]
            forms_reached.add(chosen + ",R")
            if chosen not in allowed:
                emit(c_enc1, "finding", sitev + "/" + reg, "form=%s,post=%#04x" % (chosen, mask),
                     "%s: offset %s%d..%s%d with register %s is encoded with post-byte %02X (%s form), which cannot hold it or does not exist"
                     % (cls, sign, lo, sign, hi, reg, mask, chosen), where)
                continue
            if chosen == "n5":
                bad = None
                undec = False
                for n in range(lo, hi + 1):
                    val = mask
                    for oq in opaque:
                        x = av_int(oq, n)
                        if x is None:
                            undec = True
                            break
                        val |= x
                    if undec:
                        break
                    want = regbits | ((-n if neg else n) & 0x1F)
                    if val != want:
                        bad = (n, val, want)
                        break
                if undec:
                    emit(c_enc1, "undecided", sitev, "5-bit-encoding-not-evaluable", repr(opaque)[:60], where)
                elif bad:
                    emit(c_enc1, "finding", sitev + "/" + reg, "5bit(%s%d)=%#04x(datasheet %#04x)" % (sign, bad[0], bad[1], bad[2]),
                         "%s: 5-bit offset %s%d,%s encodes as %02X, datasheet %02X" % (cls, sign, bad[0], reg, bad[1], bad[2]), where)
                else:
                    emit(c_enc1, "ok", sitev + "/" + reg, "5bit two's complement for %s%d..%s%d" % (sign, lo, sign, hi), "", where)
                extra = 0
            else:
                if opaque:
                    emit(c_enc1, "undecided", sitev, "opaque-post-byte", repr(opaque)[:60], where)
                else:
                    emit(c_enc1, "ok" if (mask & 0x60) == regbits else "finding", sitev + "/" + reg, "post=%#04x" % mask,
                         "%s: register bits %02X for %s" % (cls, mask & 0x60, reg), where)
                extra = 1 if chosen == "n8" else 2
                if isinstance(add, Ctor) and add.cls == "NumericValue" and add.args:
                    okc = True
                    for n in (lo, hi, (lo + hi) // 2):
                        x = av_int(add.args[0], n)
                        if x is None:
                            okc = None
                            break
                        want = (-n if neg else n) & ((1 << (8 * extra)) - 1)
                        if x != want:
                            okc = (n, x, want)
                            break
                    if okc is None:
                        emit(c_enc1, "undecided", sitev, "offset-content-not-evaluable", repr(add)[:60], where)
                    elif okc is not True:
                        emit(c_enc1, "finding", sitev, "offset(%s%d)=%#x(two's complement %#x)" % (sign, okc[0], okc[1], okc[2]),
                             "%s: offset %s%d is emitted as %X, two's complement in %d byte(s) is %X" % (cls, sign, okc[0], okc[1], extra, okc[2]), where)
                    else:
                        emit(c_enc1, "ok", sitev, "offset bytes = two's complement", "", where)
            w = width_of(add, lo, hi)
            _three_way(emit, c_enc2, c_enc3, sitev, cls, sign + chosen + ",R", extra, "dyn" if size_dyn else size_inc, max_inc, w, choices, where)
            continue
        if form == "n,PCR":
            if anr:
                sitep = site0 + ":label,PCR"
                forms_reached.add("label,PCR")
                want_choices = [0x8C | IND, 0x8D | IND]
                if choices is None:
                    emit(c_enc1, "undecided", sitep, "choices-not-constant", "", where)
                else:
                    ch = list(choices)
                    emit(c_enc1, "ok" if ch == want_choices else "finding", sitep,
                         "choices=[%s]" % ",".join("%#04x" % x for x in ch) + ("" if ch == want_choices else "(datasheet %#04x,%#04x)" % tuple(want_choices)),
                         "%s: label,PCR must choose between post-bytes %02X (8-bit) and %02X (16-bit), path offers %s"
                         % (cls, want_choices[0], want_choices[1], ch), where)
                base_ok = (mask | want_choices[0]) == want_choices[0] and (mask | want_choices[1]) == want_choices[1]
                if opaque and base_ok:
                    emit(c_enc1, "undecided", sitep + ":base", "base-post-byte-has-opaque-bits", repr(opaque)[:60], where)
                else:
                    emit(c_enc1, "ok" if base_ok else "finding", sitep + ":base", "base post-byte adds nothing to the PCR choice" if base_ok else "base=%#04x pollutes the PCR post-byte" % mask,
                         "%s: the post-byte base %02X OR-ed with the PCR choice does not give the datasheet post-byte" % (cls, mask), where)
                if size_inc is not None and max_inc is not None:
                    good = size_inc == 0 and max_inc == 2
                    emit(c_enc3, "ok" if good else "finding", sitep, "size+0,max+2" if good else "size+%d,max_size+%d(expected +0,+2 before the choice)" % (size_inc, max_inc),
                         "%s: an unresolved label,PCR must report size ind_sz and max_size ind_sz+2 until the choice is made" % cls, where)
                else:
                    emit(c_enc3, "undecided", sitep, "size-not-affine", "", where)
                if isinstance(add, Ctor) and add.cls == "NoneValue":
                    emit(c_enc6, "finding", sitep, "needs-resolution-with-NoneValue", "%s: label,PCR returns no target in additional" % cls, where)
                else:
                    emit(c_enc6, "ok", sitep, "target carried in additional", "", where)
            elif anr is None:
                emit(c_enc1, "undecided", site0 + ":n,PCR", "needs-resolution-flag-not-constant", "", where)
            else:
                sitep = site0 + ":n,PCR"
                if opaque:
                    emit(c_enc1, "undecided", sitep, "opaque-post-byte", "", where)
                    continue
                if mask == (0x8C | IND):
                    chosen, extra = "n8,PCR", 1
                elif mask == (0x8D | IND):
                    chosen, extra = "n16,PCR", 2
                else:
                    emit(c_enc1, "finding", sitep, "post=%#04x(datasheet %#04x or %#04x)" % (mask, 0x8C | IND, 0x8D | IND),
                         "%s: n,PCR emits post-byte %02X" % (cls, mask), where)
                    continue
                forms_reached.add(chosen)
                emit(c_enc1, "ok", sitep + ":" + chosen, "post=%#04x" % mask, "", where)
                # the displacement emitted is the operand itself, or is rebuilt from it with its sign: .int is the magnitude only
                if isinstance(add, Ctor) and add.cls == "NumericValue" and add.args and re.fullmatch(r"<(self\.left|additional)(@\d+)?\.int>", repr(add.args[0])) \
                        and not any(a.endswith(".is_negative()") for a in ta | fa):
                    emit(c_enc1, "finding", sitep + ":" + chosen + ":sign", "the displacement is rebuilt from the magnitude of the operand (sign dropped)",
                         "%s: a numeric n,PCR displacement is emitted as NumericValue(%s): .int holds the magnitude and the sign lives in a separate flag, so -5,PCR is encoded as +5"
                         % (cls, repr(add.args[0])), where)
                w = width_of(add, None, None)
                _three_way(emit, c_enc2, c_enc3, sitep + ":" + chosen, cls, chosen, extra, "dyn" if size_dyn else size_inc, max_inc, w, choices, where)
    if c_enc4 is not None:
        if not invalid_accepted:
            c_enc4.ok(site0, "every return path is realised by a grammar-valid operand only", where0)
        for cat, probes in sorted(invalid_accepted.items()):
            fact = ",".join(sorted({probe_category(x) for x in probes})) if cat == "register-half-outside-grammar" else ",".join(_patterns(probes))
            c_enc4.finding(site0, "%s:%s" % (cat, fact),
                           "%s.translate() has a return path (no raise) for operands outside the indexed grammar: %s %s"
                           % (cls, cat, sorted(probes)), where0)
    if c_enc1 is not None:
        need = ["[n]"] if indirect else []
        need += [",R", ",R++", ",--R", "A,R", "B,R", "D,R", "n8,R", "n16,R", "label,PCR"]
        if not indirect:
            need += [",R+", ",-R", "n5,R"]
        for f in need:
            if f in forms_reached:
                c_enc1.ok(site0 + ":reach:" + f, "reached", where0, nontrivial=False)
            elif n_paths >= 20 and not n_open[0]:
                c_enc1.finding(site0 + ":reach:" + f, "form-not-reachable", "%s.translate() has no return path for the datasheet form %s" % (cls, f), where0)
            else:
                c_enc1.undecided(site0 + ":reach:" + f, "form-not-seen", "", where0)
        c_enc1.note("%s: %d return outcomes judged over %d operand combinations" % (cls, n_paths, len(GRAMMAR_RIGHT + PROBES_RIGHT) * len(LEFT_KINDS)))
        c_enc1.floor("%s return outcomes" % cls, n_paths, 20)


def _patterns(probes):
    """compress operand spellings: a register letter becomes R when the same shape occurs for all of X, Y, U, S"""
    import re as _re
    shapes = {}
    for p in probes:
        left, sep, right = p.rpartition(",")
        m = _re.fullmatch(r"(-{0,2})([XYUS])(\+{0,2})", right)
        if sep and m:
            shapes.setdefault((left, m.group(1), m.group(3)), set()).add(m.group(2))
        else:
            shapes.setdefault((p, None, None), set())
    out = []
    for (left, pre, post), regs in shapes.items():
        if pre is None:
            out.append(left)
        elif regs == set("XYUS"):
            out.append("%s,%sR%s" % (left, pre, post))
        else:
            out += ["%s,%s%s%s" % (left, pre, r, post) for r in sorted(regs)]
    return sorted(out)


def _three_way(emit, c2, c3, site, cls, form, extra, size_inc, max_inc, w, choices, where):
    if size_inc == "dyn":
        emit(c2, "finding", site + ":size", "size-follows-the-operand's-own-length(form has %d extra byte(s))" % extra,
             "%s: form %s is followed by %d offset byte(s) but size grows by the operand value's own rendered length, which follows its spelling and magnitude" % (cls, form, extra), where)
        size_inc = None
    elif size_inc is None:
        emit(c2, "undecided", site, "size-not-affine-in-ind_sz", "", where)
    else:
        emit(c2, "ok" if size_inc == extra else "finding", site + ":size", "size+%d" % extra if size_inc == extra else "size+%d(form has %d extra byte(s))" % (size_inc, extra),
             "%s: form %s is followed by %d offset byte(s) but size grows by %d: the listing reserves the wrong space" % (cls, form, extra, size_inc), where)
    if w == "dyn":
        emit(c2, "finding", site + ":width", "additional-width-follows-the-operand-value(not the form)",
             "%s: form %s emits the operand's own Value, whose rendered width follows its spelling/the instruction, not the %d byte(s) of the form"
             % (cls, form, extra), where)
    else:
        emit(c2, "ok" if w == extra else "finding", site + ":width", "width=%d" % extra if w == extra else "width=%s(form has %d)" % (w, extra),
             "%s: form %s needs %d offset byte(s), additional renders %s" % (cls, form, extra, w), where)
    if max_inc is not None and size_inc is not None and not choices:
        emit(c3, "ok" if max_inc == size_inc else "finding", site, "max=size" if max_inc == size_inc else "max_size+%d!=size+%d" % (max_inc, size_inc),
             "%s: form %s returns max_size != size with no choice pending; PC-relative estimates across it are wrong" % (cls, form), where)


def _run(ctx, c, which):
    for cls, ind in (("IndexedOperand", False), ("ExtendedIndexedOperand", True)):
        cs = {k: None for k in ("ENC-1", "ENC-2", "ENC-3", "ENC-4", "ENC-6")}
        cs[which] = c
        _judge(ctx, cs["ENC-1"], cs["ENC-2"], cs["ENC-3"], cs["ENC-4"], cs["ENC-6"], cls, ind)


def enc1(ctx, c):
    _run(ctx, c, "ENC-1")
    # PC-relative addressing is selected by the REGISTER half of the operand being PCR, not by the letters PCR occurring somewhere in the operand
    for cls in ("IndexedOperand", "ExtendedIndexedOperand"):
        fn = ctx.repo.method(cls, "translate", inherited=False)
        for x in ast.walk(fn.node):
            if isinstance(x, ast.Compare) and len(x.ops) == 1 and isinstance(x.ops[0], (ast.In, ast.NotIn)) and isinstance(x.left, ast.Constant) and x.left.value == "PCR":
                if U(x.comparators[0]) != "self.right":
                    c.finding("%s.translate:pcr-test" % cls, "PC-relative is chosen when `%s`" % U(x)[:50],
                              "%s.translate selects the PC-relative forms under `%s`: that is a substring test on more than the register half, so an operand whose offset symbol merely contains "
                              "the letters PCR (PCROFF,X) is encoded as n,PCR and its register is lost" % (cls, U(x)[:60]), ctx.repo.loc(fn, x))
                else:
                    c.ok("%s.translate:pcr-test" % cls, "PCR is looked for in the register half", ctx.repo.loc(fn, x))


    # ... and the index register by the register half as well: a register letter looked for in text that contains the offset (a symbol of the programmer's choosing)
    # makes the post byte depend on how the symbol is spelled
    for cls in ("IndexedOperand", "ExtendedIndexedOperand"):
        fn = ctx.repo.method(cls, "translate", inherited=False)
        fnf = _fl_enc(ctx.repo, fn)
        regs = {"X", "Y", "U", "S"}
        bad = None
        n_tests = 0
        for x in ast.walk(fnf):
            if isinstance(x, ast.Compare) and len(x.ops) == 1 and isinstance(x.ops[0], (ast.In, ast.NotIn)):
                lits = set()
                if isinstance(x.left, ast.Constant) and isinstance(x.left.value, str):
                    lits = {x.left.value}
                elif isinstance(x.left, ast.Name):
                    # a loop variable over a literal table of registers
                    for lp in ast.walk(fnf):
                        if isinstance(lp, ast.For) and x in list(ast.walk(lp)) and any(isinstance(t_, ast.Name) and t_.id == x.left.id for t_ in ast.walk(lp.target)):
                            lits = {e_.value for e_ in ast.walk(lp.iter) if isinstance(e_, ast.Constant) and isinstance(e_.value, str)}
                if lits & regs and lits <= regs | {"PCR", "PC"}:
                    n_tests += 1
                    hay = U(x.comparators[0])
                    if re.search(r"operand_string|self\.left|self\.value", hay) and bad is None:
                        bad = x
        if bad is not None:
            c.finding("%s.translate:register-source" % cls, "the index register is looked for in `%s`" % U(bad.comparators[0])[:40],
                      "%s.translate tests `%s`: that text contains the offset, so a symbol whose name has a Y, U or S in it (SCORE,X) sets register bits of its own and the post byte "
                      "changes when a symbol is renamed" % (cls, U(bad)[:60]), ctx.repo.loc(fn, fn.node))
        elif n_tests:
            c.ok("%s.translate:register-source" % cls, "register letters are looked for in the register half only", ctx.repo.loc(fn, fn.node))


def _fl_enc(repo, fn):
    from ..inline import flatten
    try:
        return flatten(repo, fn, depth=2)
    except Exception:
        return fn.node


def enc2(ctx, c):
    _run(ctx, c, "ENC-2")


def enc3(ctx, c):
    _run(ctx, c, "ENC-3")


def enc4(ctx, c):
    _run(ctx, c, "ENC-4")


def enc6(ctx, c):
    _run(ctx, c, "ENC-6")


RULES = {"ENC-1": enc1, "ENC-2": enc2, "ENC-3": enc3, "ENC-4": enc4, "ENC-6": enc6}


# ---------------------------------------------------------------------------------------------------
# ENC-5 special operands (PSH/PUL register lists, TFR/EXG register pairs)

def enc5(ctx, c):
    """ENC-5: SpecialOperand.translate() folded for every mnemonic and every register (list / pair) of a finite universe:
    the post-byte equals the datasheet's, and everything the CPU cannot do is rejected."""
    from ..consteval import fold_body, Raised, NotConst, Struct
    from ..inline import flatten
    repo = ctx.repo
    fn = repo.method("SpecialOperand", "translate", inherited=False)
    where = repo.loc(fn, fn.node)
    node = flatten(repo, fn, depth=2)
    eff, _ = ctx.effective_rows()

    def run(mnemonic, operand):
        env = dict(ctx.env)
        row = eff.get(mnemonic)
        env.update({"self.instruction.mnemonic": mnemonic, "self.operand_string": operand,
                    "self.instruction.mode.imm": row.modes["imm"][0] if row else 0, "self.instruction.mode.imm_sz": row.modes["imm"][1] if row else 2})
        try:
            r = fold_body(node.body, env, ctors=("CodePackage", "NumericValue", "NoneValue"))
        except Raised as e:
            return ("rejected", e.name)
        if isinstance(r, Struct) and r.cls == "CodePackage":
            pb = r.kw.get("post_byte")
            if isinstance(pb, Struct) and pb.args and isinstance(pb.args[0], int):
                return ("post", pb.args[0])
        raise NotConst("translate() did not fold to a CodePackage with a constant post byte: %r" % (r,))

    regs = ["A", "B", "D", "X", "Y", "U", "S", "CC", "DP", "PC"]
    probes = ["Z", "W", "", "x", "a", "d", "pc", "u", "s", " X", "X "]
    if ctx.tier == "thorough":
        probes += ["cc", "dp", "b", "y", "AB", "XY", "PCR", "P", "C", "SP", "IX", "A ", " A", "CC ", "0", "#", "$10", "DD", "PCC"]
    n = 0
    try:
        for m in ("PSHS", "PSHU", "PULS", "PULU"):
            own = m[-1]
            other = "U" if own == "S" else "S"
            for r in regs + probes:
                n += 1
                res = run(m, r)
                if r == own or (r not in mc6809.PSHPUL_BITS and r != other):
                    want = None
                else:
                    want = mc6809.PSHPUL_OTHER_STACK_BIT if r == other else mc6809.PSHPUL_BITS[r]
                site = "SpecialOperand.translate:%s %s" % (m, r or "(empty)")
                if want is None:
                    c.check(res[0] == "rejected", site, "rejected", "accepted with post-byte %#04x" % (res[1] if res[0] == "post" else 0),
                            "%s %s is accepted (post-byte %02X); the MC6809 has no such operation%s" % (m, r, res[1] if res[0] == "post" else 0, " - a stack cannot push/pull its own pointer" if r == own else ""), where)
                else:
                    c.check(res == ("post", want), site, "post-byte %#04x" % want, "rejected" if res[0] == "rejected" else "post-byte %#04x (datasheet %#04x)" % (res[1], want),
                            "%s %s: %s; the datasheet bit for %s is %02X" % (m, r, "rejected" if res[0] == "rejected" else "post-byte %02X" % res[1], r, want), where)
            # lists OR their masks
            for lst, want in (("A,B", 0x06), ("X,Y,%s" % other, 0x70), ("CC,A,B,DP,X,Y,%s,PC" % other, 0xFF), ("D,CC", 0x07),
                              ("D,A", 0x06), ("A,D", 0x06), ("D,B,A", 0x06), ("A,A", 0x02), ("X,%s,X" % other, 0x50)):
                n += 1
                res = run(m, lst)
                c.check(res == ("post", want), "SpecialOperand.translate:%s %s" % (m, lst), "post-byte %#04x" % want, "%s" % (res,),
                        "%s %s gives %s, the datasheet post-byte is %02X" % (m, lst, res, want), where)
        ref_legal = mc6809.tfr_legal_postbytes()
        for m in ("TFR", "EXG"):
            for a in regs + ["x", "a", "Z"]:
                for b in regs + ["x", "a", "Z"]:
                    n += 1
                    res = run(m, "%s,%s" % (a, b))
                    known = a in mc6809.TFR_CODES and b in mc6809.TFR_CODES
                    same = known and ((a in mc6809.TFR_16) == (b in mc6809.TFR_16))
                    site = "SpecialOperand.translate:%s %s,%s" % (m, a, b)
                    if same:
                        want = (mc6809.TFR_CODES[a] << 4) | mc6809.TFR_CODES[b]
                        c.check(res == ("post", want), site, "post-byte %#04x" % want, "rejected" if res[0] == "rejected" else "post-byte %#04x (datasheet %#04x)" % (res[1], want),
                                "%s %s,%s: %s; the datasheet post-byte is %02X" % (m, a, b, "rejected" if res[0] == "rejected" else "post-byte %02X" % res[1], want), where)
                    else:
                        c.check(res[0] == "rejected", site, "rejected", "accepted with post-byte %#04x" % (res[1] if res[0] == "post" else 0),
                                "%s %s,%s is accepted (post-byte %02X); registers of different size (or unknown registers) cannot be transferred or exchanged" % (m, a, b, res[1] if res[0] == "post" else 0), where)
            for bad in ("A", "A,B,X", ""):
                n += 1
                res = run(m, bad)
                c.check(res[0] == "rejected", "SpecialOperand.translate:%s %s" % (m, bad or "(empty)"), "rejected", "accepted", "%s with operand %r is accepted; exactly two registers are required" % (m, bad), where)
    except NotConst as e:
        c.undecided("SpecialOperand.translate", "not-foldable", str(e)[:160], where)
    c.note("ENC-5: %d (mnemonic, operand) cases folded" % n)
    init = repo.method("SpecialOperand", "__init__")
    gate = any(isinstance(x, ast.If) and "is_special" in U(x.test) and isinstance(x.body[-1], ast.Raise) for x in ast.walk(init.node))
    c.shape(gate, "SpecialOperand.__init__", "only is_special instructions", "gate on is_special not recognised", repo.loc(init, init.node))


RULES["ENC-5"] = enc5


# ---------------------------------------------------------------------------------------------------
# ENC-7 operand classification: cascade order constraints, prefix -> mode, Unknown -> Direct/Extended resolution

CASCADE_CONSTRAINTS = [
    ("PseudoOperand", "*", "directive operands (strings, lists) must never be tried as CPU operands"),
    ("SpecialOperand", "InherentOperand", "PSHS/TFR without operand must report the missing registers, not assemble as inherent"),
    ("ExtendedIndexedOperand", "IndexedOperand", "`[5,X]` is also a left,right pair; the bracketed form must be recognised first"),
    ("IndexedOperand", "UnknownOperand", "`5,X` must not fall through to the direct/extended fallback"),
    ("ImmediateOperand", "UnknownOperand", "`#5` parses as a value with IMMEDIATE mode; the fallback would make it a memory operand"),
    ("RelativeOperand", "UnknownOperand", "a branch target is not a memory operand"),
    ("InherentOperand", "UnknownOperand", "an empty operand is not a value"),
]


def enc7(ctx, c):
    repo = ctx.repo
    # a resolved offset keeps its sign: Value.int is the magnitude only, so re-wrapping a resolved value as NumericValue(x.int) turns S-20 into +20
    for cn_ in ("IndexedOperand", "ExtendedIndexedOperand"):
        if not repo.has_cls(cn_) or "resolve_symbols" not in repo.cls(cn_).methods:
            continue
        rs_ = repo.cls(cn_).methods["resolve_symbols"]
        hits_ = [x for x in ast.walk(rs_.node) if isinstance(x, ast.Call) and U(x.func).endswith("NumericValue") and x.args and re.fullmatch(r"self\.(left|right|value)\.int", U(x.args[0]))
                 and not any(k.arg in ("negative", "sign") for k in x.keywords)]
        if hits_:
            c.finding("%s.resolve_symbols:sign" % cn_, "a resolved value is rebuilt from its magnitude (%s)" % U(hits_[0])[:40],
                      "%s.resolve_symbols does `%s` after resolving the operand: .int holds the magnitude, the sign lives in a separate flag, so an offset expression that comes out "
                      "negative (S-20 with S = 16) is encoded as a positive offset" % (cn_, U(hits_[0])[:50]), repo.loc(rs_, hits_[0]))
        else:
            c.ok("%s.resolve_symbols:sign" % cn_, "resolved values are kept as resolved", repo.loc(rs_, rs_.node))
    # the names that are NOT looked up as symbols in the offset position are the accumulator offsets the encoder knows (A, B, D): a longer list leaves a symbol called E, F
    # or W unresolved; a shorter one looks an accumulator up in the symbol table
    for cn_ in ("IndexedOperand", "ExtendedIndexedOperand"):
        if not repo.has_cls(cn_) or "resolve_symbols" not in repo.cls(cn_).methods:
            continue
        rs_ = repo.cls(cn_).methods["resolve_symbols"]
        for x in ast.walk(rs_.node):
            if isinstance(x, ast.Compare) and len(x.ops) == 1 and isinstance(x.ops[0], (ast.NotIn, ast.In)) and U(x.left) == "self.left":
                names_ = try_fold_(x.comparators[0], {**ctx.env, **ctx.self_env(cn_)}) if not isinstance(x.comparators[0], ast.Constant) else x.comparators[0].value
                if isinstance(names_, (list, tuple, set, frozenset, str)) and "A" in names_:
                    got_ = set(names_) - {""}          # the empty offset (",R") is sometimes folded into the same membership test
                    c.check(got_ == {"A", "B", "D"}, "%s.resolve_symbols:accumulators" % cn_, "A, B, D are not looked up", "not looked up: %s" % sorted(got_),
                            "%s.resolve_symbols leaves the offsets %s unresolved as accumulator names; translate() knows the accumulator offsets A, B and D only, so a symbol called %s "
                            "is never replaced by its value and the statement is rejected or mis-encoded" % (cn_, sorted(got_), "/".join(sorted(got_ - {"A", "B", "D"})) or "-"), repo.loc(rs_, x))
    fn = repo.method("Operand", "create_from_str", inherited=False)
    where = repo.loc(fn, fn.node)
    order = []
    for st in ast.walk(fn.node):
        if isinstance(st, ast.Try):
            for x in st.body:
                if isinstance(x, ast.Return) and isinstance(x.value, ast.Call) and U(x.value.func).endswith("Operand"):
                    order.append((U(x.value.func), st))
    names = [n for n, _ in sorted(order, key=lambda kv: kv[1].lineno)]
    if not names:
        # a loop over an ordered collection of classes
        for st in ast.walk(fn.node):
            if isinstance(st, ast.For):
                seq = st.iter
                if isinstance(seq, ast.Name):
                    seq = fn.module.assigns.get(seq.id) or (fn.cls.assigns.get(seq.id) if fn.cls else None) or seq
                if isinstance(seq, ast.Attribute):
                    seq = (fn.cls.assigns.get(seq.attr) if fn.cls else None) or seq
                if isinstance(seq, (ast.Tuple, ast.List)) and all(isinstance(e, ast.Name) and e.id.endswith("Operand") for e in seq.elts):
                    names = [e.id for e in seq.elts]
                    order = []
    if not names:
        c.undecided("create_from_str", "cascade-shape-not-recognised", "", where)
        names = None
    for a, b, why in (CASCADE_CONSTRAINTS if names else []):
        if a not in names:
            c.finding("create_from_str:%s" % a, "class never tried", "Operand.create_from_str never tries %s" % a, where)
            continue
        if b == "*":
            c.check(names[0] == a, "create_from_str:%s first" % a, "tried first", "tried at position %d" % names.index(a), "%s must be tried first: %s" % (a, why), where)
        elif b in names:
            c.check(names.index(a) < names.index(b), "create_from_str:%s<%s" % (a, b), "%s before %s" % (a, b), "%s is tried before %s" % (b, a),
                    "Operand.create_from_str tries %s before %s: %s" % (b, a, why), where)
    # every attempt passes the operand text and the instruction, and only OperandTypeError means "try the next class"
    for n, st in order:
        call = st.body[0].value
        args = [U(a) for a in call.args]
        ps = [p for p in fn.params if p not in ("self", "cls")]
        c.check(args == ps[:2], "create_from_str:%s:args" % n, "(operand text, instruction)", "called with %s" % args, "%s is constructed with %s" % (n, args), repo.loc(fn, st))
        hs = [U(h.type) if h.type is not None else "bare" for h in st.handlers]
        c.check(hs == ["OperandTypeError"], "create_from_str:%s:handler" % n, "falls through on OperandTypeError only", "handlers %s" % hs,
                "create_from_str moves on from %s on %s: other errors must surface as diagnostics, and OperandTypeError must not be swallowed more widely" % (n, hs), repo.loc(fn, st))
    last = fn.node.body[-1]
    if isinstance(last, ast.Raise):
        c.ok("create_from_str:exhausted", "raises when no class accepts", where)
    elif not any(isinstance(x, ast.Raise) for x in ast.walk(fn.node)):
        c.finding("create_from_str:exhausted", "no raise at all", "create_from_str returns None when no class accepts the operand", where)
    else:
        c.undecided("create_from_str:exhausted", "shape-not-recognised", "", where)
    # Unknown -> Direct / Extended, decided by evaluating Operand.resolve_symbols for each kind of (value as written, value after resolution)
    rs = repo.method("Operand", "resolve_symbols", inherited=False)
    wr_ = repo.loc(rs, rs.node)
    from ..concrete import Obj as _Oe, ClsRef as _Ce, Desc as _De, run_concrete as _rce
    cfgs = [("written with <, resolves to a number", dict(xd=True), dict(numeric=True, direct=False), "DirectOperand"),
            ("a number marked direct", dict(xd=False), dict(numeric=True, direct=True), "DirectOperand"),
            ("a number not marked direct", dict(xd=False), dict(numeric=True, direct=False), "ExtendedOperand"),
            ("resolves to a label", dict(xd=False), dict(numeric=False, direct=False), "ExtendedOperand"),
            ("written with <, resolves to a label", dict(xd=True), dict(numeric=False, direct=False), "ExtendedOperand")]
    ev_ok, ev_bad, ev_notes = 0, [], []
    from ..inline import flatten as _flat7
    rs_flat = _flat7(repo, rs, depth=3)       # helpers of the class and `Class.factory(self)` classmethods read in place
    for title, oldp, newp, want_cls in cfgs:
        new_o = _Oe("Value", label="<resolved value>")
        new_o.attrs.update({"numeric": newp["numeric"], "direct": newp["direct"], "xd": False, "int": 0x10})
        old_o = _Oe("Value", label="<value as written>")
        old_o.attrs.update({"numeric": False, "direct": False, "xd": oldp["xd"], "int": 0})
        hk = {("*", "resolve"): (lambda r, a, _n=new_o: _n), ("*", "is_numeric"): (lambda r, a: bool(r.attrs.get("numeric"))), ("*", "is_direct"): (lambda r, a: bool(r.attrs.get("direct"))),
              ("*", "is_explicit_direct"): (lambda r, a: bool(r.attrs.get("xd"))), ("self", "is_unknown"): (lambda a: True)}
        for pn in ("is_extended", "is_explicit_extended", "is_symbol", "is_address", "is_expression", "is_address_expression", "is_immediate", "is_none"):
            hk.setdefault(("*", pn), (lambda r, a: False))
        enve = dict(ctx.env)
        for cn in ("DirectOperand", "ExtendedOperand", "DirectNumericValue", "ExtendedNumericValue", "NumericValue"):
            enve[cn] = _Ce(cn)
        enve.update({"self.value": old_o, "self.operand_string": "TEXT", "self.instruction": _De("self.instruction")})
        evs, nts = [], []
        end_ = _rce(body_without_doc(rs_flat), enve, evs, nts, hooks=hk)
        ev_notes += nts
        rv = enve.get("$return")
        got = rv.cls if isinstance(rv, _Oe) else repr(rv)
        if isinstance(rv, _De) and "(" in str(rv):
            ev_notes.append("returns the result of a call that is not expanded: %r" % (rv,))
        if got == want_cls and want_cls == "ExtendedOperand":
            carried = rv.attrs.get("value", rv.args[2] if len(getattr(rv, "args", [])) > 2 else None)
            if carried is not new_o:
                got = "ExtendedOperand carrying %r instead of the resolved value itself" % (carried,)
        if got == want_cls and want_cls == "DirectOperand":
            carried = rv.attrs.get("value", rv.args[2] if len(getattr(rv, "args", [])) > 2 else None)
            if not (isinstance(carried, _Oe) and carried.cls == "DirectNumericValue" and getattr(carried, "args", [None])[:1] == [0x10]):
                got = "DirectOperand carrying %r" % (carried,)
        if got == want_cls:
            ev_ok += 1
        else:
            ev_bad.append((title, got, want_cls))
    resolved_eval = not ev_notes
    if resolved_eval:
        if ev_bad:
            t_, g_, w_ = ev_bad[0]
            c.finding("Operand.resolve_symbols:%s" % ("direct" if w_ == "DirectOperand" else "extended"), "an operand %s becomes %s" % (t_, g_),
                      "Operand.resolve_symbols, evaluated for an unclassified operand %s, returns %s; it must become %s carrying the resolved value (the < prefix is a property of "
                      "the text as written: the value a symbol resolves to no longer carries it; a value re-built from its magnitude loses its sign and width)" % (t_, g_, w_), wr_)
        else:
            c.ok("Operand.resolve_symbols:direct", "DirectOperand for a direct number or a < operand that resolves to a number (5 configurations evaluated)", wr_)
            c.ok("Operand.resolve_symbols:extended", "ExtendedOperand otherwise", wr_)
    try:
        outs = Interp(rs_flat).run() if not resolved_eval else []
    except PathCap as e:
        c.undecided("Operand.resolve_symbols", "path-cap", str(e), wr_)
        outs = []
    seen = set()
    for o in outs:
        if o.kind != "return":
            continue
        ta, fa = o.path.true_atoms(), o.path.false_atoms()
        v = o.value
        desc = v.cls if isinstance(v, Ctor) else repr(v)
        unknown = "self.is_unknown()" in ta
        numeric = "self.value.is_numeric()" in ta
        direct = "self.value.is_direct()" in ta or "old_value.is_explicit_direct()" in ta
        key = (unknown, numeric and direct, desc)
        if key in seen:
            continue
        seen.add(key)
        decided_not_direct = ("self.value.is_numeric()" in fa) or ("self.value.is_direct()" in fa and "old_value.is_explicit_direct()" in fa)
        if "self.is_unknown()" not in ta and "self.is_unknown()" not in fa:
            c.undecided("Operand.resolve_symbols", "classification-conditions-not-recognised", desc, wr_)
        elif not unknown:
            c.check(desc == "<self>", "Operand.resolve_symbols:known", "classified operands keep their class", "returns %s" % desc, "resolve_symbols turns an already classified operand into %s" % desc, wr_)
        elif not (numeric and direct) and not decided_not_direct:
            c.undecided("Operand.resolve_symbols", "direct/extended conditions not recognised", desc, wr_)
        elif numeric and direct:
            good = isinstance(v, Ctor) and v.cls == "DirectOperand" and len(v.args) == 3 and isinstance(v.args[2], Ctor) and v.args[2].cls == "DirectNumericValue" \
                and len(v.args[2].args) == 1 and re.fullmatch(r"<self\.value(@\d+)?\.int>", repr(v.args[2].args[0])) is not None
            c.check(good, "Operand.resolve_symbols:direct", "DirectOperand with the value as one byte", "returns %s" % repr(v)[:80],
                    "a numeric value that is direct (or written with <) must become DirectOperand(DirectNumericValue(value)); resolve_symbols returns %s" % repr(v)[:100], wr_)
        else:
            good = isinstance(v, Ctor) and v.cls == "ExtendedOperand" and repr(v.kw.get("value")) == repr(o.path.env.get("self.value"))
            c.check(good, "Operand.resolve_symbols:extended", "ExtendedOperand with the resolved value", "returns %s" % repr(v)[:80],
                    "any other unclassified operand must become ExtendedOperand(value=resolved value); resolve_symbols returns %s" % repr(v)[:100], wr_)
    t = U(rs.node)
    if ".resolve(symbol_table)" in t or ".resolve(" in t:
        c.ok("Operand.resolve_symbols:resolve", "the value is resolved against the symbol table", wr_)
    else:
        c.finding("Operand.resolve_symbols:resolve", "no resolve call", "Operand.resolve_symbols never resolves its value against the symbol table", wr_)
    # the [address] form is followed by a 16-bit address: its value is parsed with the extended default
    if repo.has_cls("ExtendedIndexedOperand"):
        ei = repo.method("ExtendedIndexedOperand", "__init__")
        for n_ in ast.walk(ei.node):
            if isinstance(n_, ast.Assign) and U(n_.targets[0]) == "self.value" and isinstance(n_.value, ast.Call) and U(n_.value.func) == "Value.create_from_str":
                kwd = {k.arg: try_fold_(k.value, ctx.env) for k in n_.value.keywords if k.arg}
                pos3 = try_fold_(n_.value.args[2], ctx.env) if len(n_.value.args) > 2 else None
                dme = kwd.get("default_mode_extended", pos3 if len(n_.value.args) > 2 else True)
                c.check(dme is not False, "ExtendedIndexedOperand.__init__:[address]", "the bracketed address is parsed as a 16-bit value", "parsed with default_mode_extended=False",
                        "ExtendedIndexedOperand.__init__ parses the text between the brackets with default_mode_extended=False: `[$0010]` is then a value without the extended "
                        "width, and the 9F form, which is followed by a 16-bit address, is emitted a byte short", repo.loc(ei, n_))
    # prefixes -> explicit modes
    cf = repo.method("Value", "create_from_str", inherited=False)
    wc = repo.loc(cf, cf.node)
    want = {"<": "EXPLICIT_DIRECT", ">": "EXPLICIT_EXTENDED", "#": "IMMEDIATE"}
    got = {}
    for n in ast.walk(cf.node):
        if isinstance(n, ast.If) and isinstance(n.test, ast.Call) and U(n.test.func).endswith(".startswith") and n.test.args:
            from ..consteval import try_fold
            ch = try_fold(n.test.args[0])
            for x in n.body:
                if isinstance(x, ast.Assign) and U(x.targets[0]) == "mode":
                    got[ch] = U(x.value).split(".")[-1]
    if not got:
        dicts = [n for n in ast.walk(cf.module.tree) if isinstance(n, ast.Dict) and n.keys and all(isinstance(k, ast.Constant) and k.value in want for k in n.keys)]
        for d in dicts:
            for k, v in zip(d.keys, d.values):
                got[k.value] = U(v).split(".")[-1]
    # decide by folding the straight-line part of the function (everything before the cascade of attempts) for each prefix
    from ..consteval import fold_body, NotConst, Raised
    pre = []
    for st in cf.node.body:
        if isinstance(st, ast.Expr) and isinstance(st.value, ast.Constant):
            continue
        if any(isinstance(x, (ast.Try, ast.Return)) for x in ast.walk(st)):
            if any(isinstance(x, ast.Call) and U(x.func) == "StringValue" for x in ast.walk(st)):
                continue        # the FCC attempt: not taken without an instruction
            break
        pre.append(st)
    vparam = [p_ for p_ in cf.params if p_ not in ("self", "cls")][0]
    EAMP = "ExplicitAddressingMode."
    folded = {}
    for ch in ("<", ">", "#", ""):
        for dme in (True, False):
            envf = dict(ctx.env)
            envf.update({vparam: ch + "$12", "instruction": None, "default_mode_extended": dme})
            final = {}
            try:
                fold_body(pre, envf, final=final)
                # what the value classes are handed: the first argument and the mode keyword of the constructor calls in the cascade
                from ..consteval import fold as _f7
                vcalls = [x for x in ast.walk(cf.node) if isinstance(x, ast.Call) and U(x.func) in ("ExpressionValue", "NumericValue", "SymbolValue", "LeftRightValue") and x.args]
                if not vcalls:
                    # the cascade written as a loop over the classes: `for value_class ...: value_class(text, mode=mode)`
                    vcalls = [x for x in ast.walk(cf.node) if isinstance(x, ast.Call) and isinstance(x.func, ast.Name) and x.args and any(k.arg == "mode" for k in x.keywords)]
                texts_ = {U(x.args[0]) for x in vcalls}
                modes_ = {U(k.value) for x in vcalls for k in x.keywords if k.arg == "mode"}
                if len(texts_) == 1 and len(modes_) == 1:
                    folded[(ch, dme)] = (_f7(next(k.value for x in vcalls for k in x.keywords if k.arg == "mode"), final), _f7(vcalls[0].args[0], final))
                else:
                    folded[(ch, dme)] = (final.get("mode"), final.get(vparam))
            except (NotConst, Raised) as e:
                folded = None
                break
        if folded is None:
            break
    # the 16-bit width hint follows the is_16_bit flag and no other: the hint reaches every literal of the statement, index offsets included
    try:
        hints = {}
        for label_, flags_ in (("16-bit immediate", {"is_16_bit": True}), ("other flags", {"is_16_bit": False})):
            envh = dict(ctx.env)
            envh.update({vparam: "$12", "instruction": True, "default_mode_extended": True})
            for fl_ in ("is_16_bit", "is_lea", "is_special", "is_short_branch", "is_long_branch", "is_pseudo", "is_string_define", "is_multi_byte", "is_multi_word"):
                envh["instruction.%s" % fl_] = flags_.get(fl_, fl_ != "is_16_bit" and fl_ not in ("is_string_define", "is_pseudo", "is_multi_byte", "is_multi_word"))
            fin_ = {}
            fold_body(pre, envh, final=fin_)
            hints[label_] = fin_.get("size_hint", "?")
        if hints.get("16-bit immediate") != "?" and hints.get("other flags") != "?":
            c.check(hints["16-bit immediate"] == 4 and hints["other flags"] is None, "Value.create_from_str:width-hint", "size_hint 4 for is_16_bit instructions only",
                    "size_hint %r for a 16-bit immediate instruction, %r for an instruction with other flags set (LEA, branches)" % (hints["16-bit immediate"], hints["other flags"]),
                    "Value.create_from_str derives the width hint as %r / %r: only the instructions with a 16-bit immediate ask for 16-bit literals; a hint on LEAX or a branch widens "
                    "its constant index offset, which is emitted behind an 8-bit post byte" % (hints["16-bit immediate"], hints["other flags"]), wc)
    except (NotConst, Raised, Exception):
        pass
    if folded and all(EAMP + k in ctx.env for k in ("EXPLICIT_DIRECT", "EXPLICIT_EXTENDED", "IMMEDIATE", "EXTENDED", "NONE")):
        for ch, md in want.items():
            for dme in (True, False):
                gm, gv = folded[(ch, dme)]
                name = next((k[len(EAMP):] for k, v in ctx.env.items() if k.startswith(EAMP) and v == gm), str(gm))
                c.check(gm == ctx.env[EAMP + md] and gv == "$12", "Value.create_from_str:prefix %s" % ch, md, "prefix %s -> mode %s, text %r" % (ch, name, gv),
                        "Value.create_from_str reads the operand %s$12 as mode %s with value text %r; the prefix %s must select %s and be removed" % (ch, name, gv, ch, md), wc)
        for dme in (True, False):
            gm, gv = folded[("", dme)]
            wantm = ctx.env[EAMP + ("EXTENDED" if dme else "NONE")]
            c.check(gm == wantm and gv == "$12", "Value.create_from_str:no prefix", "no prefix keeps the default mode and the text",
                    "without prefix: mode %s text %r (default_mode_extended=%s)" % (gm, gv, dme),
                    "Value.create_from_str reads an operand without prefix as mode %s with text %r" % (gm, gv), wc)
        got = {}
        want = {}
    for ch, md in want.items():
        if ch not in got:
            c.undecided("Value.create_from_str:prefix %s" % ch, "prefix-handling-not-recognised", "", wc)
        else:
            c.check(got.get(ch) == md, "Value.create_from_str:prefix %s" % ch, md, "prefix %s -> %s" % (ch, got.get(ch)), "the operand prefix %s selects %s, it must select %s" % (ch, got.get(ch), md), wc)
    strip = any(isinstance(n, ast.Assign) and re.fullmatch(r"\w+\[1:\]", U(n.value)) for n in ast.walk(cf.node))
    c.shape(strip, "Value.create_from_str:strip", "the prefix character is removed", "prefix removal not recognised", wc)
    # an FCC operand is a delimited string whose delimiter may be any character, < > # included: the string attempt must see the
    # operand before a prefix character is taken off it
    i_str = i_strip = None
    for i, st in enumerate(cf.node.body):
        if i_str is None and any(isinstance(n, ast.Call) and U(n.func) == "StringValue" for n in ast.walk(st)):
            i_str = i
        if i_strip is None and any(isinstance(n, ast.Assign) and re.fullmatch(r"\w+\[1:\]", U(n.value)) for n in ast.walk(st)):
            i_strip = i
    if i_str is not None and i_strip is not None:
        c.check(i_str < i_strip, "Value.create_from_str:string-first", "StringValue is tried on the untouched operand", "the prefix is stripped before StringValue is tried",
                "Value.create_from_str removes a leading < > # before trying StringValue: FCC <AB< loses its opening delimiter and is rejected or mis-read", wc)
    hint = [n for n in ast.walk(cf.node) if isinstance(n, ast.If) and "is_16_bit" in U(n.test)]
    ok = bool(hint) and any(isinstance(x, ast.Assign) and U(x.targets[0]) == "size_hint" and try_fold(x.value) == 4 for x in hint[0].body)
    c.shape(ok, "Value.create_from_str:16-bit", "16-bit instructions give numeric operands 4 hex digits", "size-hint handling not recognised", wc)
    tries = []
    for st in ast.walk(cf.node):
        if isinstance(st, ast.Try):
            for x in st.body:
                if isinstance(x, ast.Return):
                    for y in ast.walk(x.value):
                        if isinstance(y, ast.Call) and U(y.func).endswith("Value"):
                            tries.append((st.lineno, U(y.func)))
                            break
    vorder = [n for _, n in sorted(tries)]
    core = [n for n in vorder if n in ("ExpressionValue", "LeftRightValue", "NumericValue", "SymbolValue")]
    if len(core) < 4:
        c.undecided("Value.create_from_str:order", "cascade-shape-not-recognised", str(core), wc)
    else:
        c.check(core.index("NumericValue") < core.index("SymbolValue") and core.index("ExpressionValue") < core.index("NumericValue") and core.index("LeftRightValue") < core.index("SymbolValue"),
                "Value.create_from_str:order", "expression and left/right before number before symbol", "order %s" % core,
                "Value.create_from_str tries %s; a number must be tried before a symbol (digits are symbol characters) and an expression before both" % core, wc)
    # the two indexed classes resolve their offset by the same steps
    steps = {}
    for cls in ("IndexedOperand", "ExtendedIndexedOperand"):
        f = repo.method(cls, "resolve_symbols", inherited=False)
        from ..inline import flatten as _fl
        t = U(_fl(repo, f, depth=2))
        for cname, cval in ctx.env.items():
            if isinstance(cval, (list, tuple, set, frozenset)) and cval and all(isinstance(x, str) and len(x) == 1 for x in cval) and "." not in cname and cname in t:
                t = t.replace(cname, repr(sorted(cval)))
        st = []
        m = re.search(r"self\.left = Value\.create_from_str\(([^\n]*)\)", t)
        st.append("parse(%s)" % (m.group(1) if m else "?"))
        st.append("symbol->resolve" if re.search(r"if self\.left\.is_symbol\(\):\s+self\.left = self\.left\.resolve\(symbol_table\)", t) else "symbol:?")
        mm = re.search(r"if (self\.left\.is_address_expression\(\) or self\.left\.is_expression\(\)|self\.left\.is_expression\(\) or self\.left\.is_address_expression\(\)):\s+self\.left = self\.left\.resolve\(symbol_table\)", t)
        st.append("expression->resolve" if mm else "expression:?")
        acc = sorted(set(re.findall(r"'([ABD])'", t)))
        st.append("accumulators=%s" % "".join(acc))
        steps[cls] = st
        # whether `A,X` is an accumulator offset is a matter of syntax: translate() decides it from the text alone, so a test that lets
        # the symbol table overrule it here makes the two methods disagree about the same operand
        for n_ in ast.walk(f.node):
            if isinstance(n_, ast.Compare) and len(n_.ops) == 1 and isinstance(n_.ops[0], (ast.In, ast.NotIn)) and isinstance(n_.comparators[0], ast.Constant) \
                    and isinstance(n_.comparators[0].value, str) and len(n_.comparators[0].value) > 1 and "self.left" in U(n_.left):
                c.finding("%s.resolve_symbols:accumulator-test" % cls, "substring test %s" % U(n_),
                          "%s.resolve_symbols decides whether the offset is an accumulator with `%s`, a substring test: an offset spelled AB or BD is taken for an accumulator, "
                          "is never looked up, and the statement is encoded without the label's value" % (cls, U(n_)), repo.loc(f, n_))
        for n_ in ast.walk(f.node):
            if isinstance(n_, ast.If) and "is_symbol()" in U(n_.test) and re.search(r"\bin symbol_table\b|symbol_table\.get\(|in symbol_table\.keys\(\)", U(n_.test)):
                c.finding("%s.resolve_symbols:undefined-symbol" % cls, "a symbol is looked up only if it is in the table (%s)" % U(n_.test)[:60],
                          "%s.resolve_symbols resolves the offset symbol only when `%s`: an undefined name is skipped instead of reaching Value.get_symbol, the one place that "
                          "reports it, and the statement assembles with the offset missing" % (cls, U(n_.test)[:80]), repo.loc(f, n_))
        for n_ in ast.walk(f.node):
            if isinstance(n_, ast.If) and re.search(r"'A'|ACCUMULATOR|accumulator", U(n_.test)) and "symbol_table" in U(n_.test):
                c.finding("%s.resolve_symbols:accumulator-test" % cls, "the accumulator test consults the symbol table (%s)" % U(n_.test)[:70],
                          "%s.resolve_symbols treats A, B or D as a symbol when the program defines one of that name (`%s`), while translate() still encodes the accumulator "
                          "offset form for the same text: the meaning of `A,X` then depends on unrelated labels" % (cls, U(n_.test)[:80]), repo.loc(f, n_))
    a, b = steps["IndexedOperand"], steps["ExtendedIndexedOperand"]
    if any(x.endswith("?") for x in a + b) or "accumulators=" in (a[3], b[3]):
        c.undecided("indexed resolve_symbols", "steps-not-recognised", "%s / %s" % (a, b), repo.cls("IndexedOperand").module.rel)
    else:
        c.check(a == b and "default_mode_extended=False" in a[0] and a[3] == "accumulators=ABD", "indexed resolve_symbols", " ; ".join(a), "direct %s / indirect %s" % (a, b),
                "the two indexed operand classes resolve a symbolic offset differently: %s versus %s" % (a, b), repo.cls("IndexedOperand").module.rel)


RULES["ENC-7"] = enc7
