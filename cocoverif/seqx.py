"""E6: byte-sequence extractor for buffer writers.

A writer method is abstracted to a tree over
  ('byte', expr_text, const|None, node)      one byte appended / stored
  ('acc', var, op, expr_text, const|None)    accumulator update  (checksum = e / checksum += e)
  ('rep', count_text, count_const, [items], loopvar)   for-loop over range(n)
  ('alt', cond_text, [then], [else])
  ('call', name, [arg texts], into_var|None, node)   call of a sibling method (inlined on demand)
  ('ret', expr_text|None)
  ('other', text, node)
Paths are then linearised with correlated conditions."""
import ast

from .model import U, body_without_doc
from .consteval import try_fold


def is_buffer_append(s, buf="self.buffer"):
    return (isinstance(s, ast.Expr) and isinstance(s.value, ast.Call) and isinstance(s.value.func, ast.Attribute)
            and s.value.func.attr == "append" and U(s.value.func.value) == buf and len(s.value.args) == 1)


def is_buffer_extend(s, buf="self.buffer"):
    return (isinstance(s, ast.Expr) and isinstance(s.value, ast.Call) and isinstance(s.value.func, ast.Attribute)
            and s.value.func.attr == "extend" and U(s.value.func.value) == buf and len(s.value.args) == 1)


class Extractor:
    def __init__(self, methods, env=None, acc_vars=("checksum",), buf="self.buffer"):
        self.methods = methods      # name -> FunctionDef of the class (for sibling calls)
        self.env = env or {}
        self.acc_vars = set(acc_vars)
        self.buf = buf

    def fold(self, n):
        v = try_fold(n, self.env)
        return v if isinstance(v, int) and not isinstance(v, bool) else None

    def _terms(self, n):
        """a + b + c -> [a, b, c]"""
        if isinstance(n, ast.BinOp) and isinstance(n.op, ast.Add):
            return self._terms(n.left) + self._terms(n.right)
        return [n]

    def sibling(self, call):
        if isinstance(call, ast.Call) and isinstance(call.func, ast.Attribute) and U(call.func.value) == "self" \
                and call.func.attr in self.methods:
            return call.func.attr
        return None

    def extract(self, stmts):
        out = []
        for s in stmts:
            if is_buffer_append(s, self.buf):
                a = s.value.args[0]
                out.append(("byte", U(a), self.fold(a), s))
            elif is_buffer_extend(s, self.buf):
                a = s.value.args[0]
                # [c] * n   or   [a, b, c]
                if isinstance(a, ast.BinOp) and isinstance(a.op, ast.Mult) and isinstance(a.left, ast.List) and len(a.left.elts) >= 1:
                    inner = [("byte", U(e), self.fold(e), s) for e in a.left.elts]
                    out.append(("rep", U(a.right), self.fold(a.right), inner, None))
                elif isinstance(a, ast.List):
                    out += [("byte", U(e), self.fold(e), s) for e in a.elts]
                else:
                    out.append(("other", U(s), s))
            elif isinstance(s, ast.Assign) and len(s.targets) == 1 and U(s.targets[0]) in self.acc_vars:
                nm = self.sibling(s.value)
                if nm:
                    out.append(("call", nm, [U(x) for x in s.value.args], ("=", U(s.targets[0])), s))
                else:
                    terms = self._terms(s.value)
                    for i_, t in enumerate(terms):
                        op_ = "=" if i_ == 0 else "+="
                        if self.sibling(t):
                            if i_ == 0:
                                out.append(("call", self.sibling(t), [U(x) for x in t.args], ("=", U(s.targets[0])), s))
                            else:
                                out.append(("call", self.sibling(t), [U(x) for x in t.args], ("+=", U(s.targets[0])), s))
                        else:
                            out.append(("acc", U(s.targets[0]), op_, U(t), self.fold(t)))
            elif isinstance(s, ast.AugAssign) and U(s.target) in self.acc_vars and isinstance(s.op, ast.Add):
                nm = self.sibling(s.value)
                if nm:
                    out.append(("call", nm, [U(x) for x in s.value.args], ("+=", U(s.target)), s))
                else:
                    for t in self._terms(s.value):
                        if self.sibling(t):
                            out.append(("call", self.sibling(t), [U(x) for x in t.args], ("+=", U(s.target)), s))
                        else:
                            out.append(("acc", U(s.target), "+=", U(t), self.fold(t)))
            elif isinstance(s, ast.Expr) and self.sibling(s.value):
                out.append(("call", self.sibling(s.value), [U(x) for x in s.value.args], None, s))
            elif isinstance(s, ast.For):
                it = s.iter
                if isinstance(it, ast.Call) and U(it.func) == "range" and 1 <= len(it.args) <= 2 and \
                        (len(it.args) == 1 or self.fold(it.args[0]) == 0):
                    cnt = it.args[-1]
                    out.append(("rep", U(cnt), self.fold(cnt), self.extract(s.body), U(s.target)))
                else:
                    out.append(("rep", "?" + U(it), None, self.extract(s.body), U(s.target)))
            elif isinstance(s, ast.If):
                out.append(("alt", U(s.test), self.extract(s.body), self.extract(s.orelse)))
            elif isinstance(s, ast.Return):
                out.append(("ret", U(s.value) if s.value else None))
            elif isinstance(s, ast.Assign) and len(s.targets) == 1 and isinstance(s.targets[0], ast.Name) and \
                    isinstance(s.value, ast.Call) and isinstance(s.value.func, ast.Attribute) and s.value.func.attr == "_replace" \
                    and U(s.value.func.value) == s.targets[0].id and not s.value.args:
                out.append(("rebind", s.targets[0].id, {k.arg: (U(k.value), k.value) for k in s.value.keywords if k.arg}, s))
            elif isinstance(s, ast.Assign) and len(s.targets) == 1 and isinstance(s.targets[0], ast.Name) and s.targets[0].id in getattr(self, "params", ()):
                out.append(("paramassign", s.targets[0].id, U(s.value), s))
            elif isinstance(s, ast.Expr) and isinstance(s.value, ast.Constant):
                pass
            elif isinstance(s, ast.Pass):
                pass
            elif isinstance(s, ast.Assign) and len(s.targets) == 1 and isinstance(s.targets[0], ast.Name) and self.buf not in U(s.value) \
                    and not any(self.sibling(x) for x in ast.walk(s.value)) and not any(v in U(s.value) for v in self.acc_vars):
                # a local name for a value that later writes use: ('let', name, text, const, node)
                out.append(("let", s.targets[0].id, U(s.value), self.fold(s.value), s))
            else:
                out.append(("other", U(s), s))
        return out

    def of_method(self, name):
        fn = self.methods[name]
        self.params = {a.arg for a in fn.args.args if a.arg != "self"}
        try:
            items = self.extract(body_without_doc(fn))
        finally:
            self.params = set()
        # a local bound once in the whole method is an opaque name (as any other statement the extractor does not model);
        # only locals that are re-bound keep their 'let' items, so that each use can be read with the value current there
        cnt = {}

        def count(its):
            for it in its:
                if it[0] == "let":
                    cnt[it[1]] = cnt.get(it[1], 0) + 1
                elif it[0] == "rep":
                    count(it[3])
                elif it[0] == "alt":
                    count(it[2])
                    count(it[3])

        def demote(its):
            out = []
            for it in its:
                if it[0] == "let" and cnt.get(it[1], 0) < 2:
                    out.append(("other", U(it[4]), it[4]))
                elif it[0] == "rep":
                    out.append(("rep", it[1], it[2], demote(it[3]), it[4]))
                elif it[0] == "alt":
                    out.append(("alt", it[1], demote(it[2]), demote(it[3])))
                else:
                    out.append(it)
            return out
        count(items)
        return demote(items)


def negate(cond):
    return "not (%s)" % cond


def paths(items, conds=()):
    """yield (conds, flat list) with correlated conditions; rep items are kept nested"""
    if not items:
        yield conds, []
        return
    head, rest = items[0], items[1:]
    if head[0] == "alt":
        known = dict(conds).get(head[1])
        for truth in ([known] if known is not None else [True, False]):
            sub = head[2] if truth else head[3]
            c2 = conds if known is not None else conds + ((head[1], truth),)
            for c3, flat in paths(list(sub) + list(rest), c2):
                yield c3, flat
    elif head[0] == "ret":
        yield conds, [head]
    else:
        for c2, flat in paths(rest, conds):
            yield c2, [head] + flat


def count_bytes(items):
    """(constant count, [symbolic counts]) of bytes in a flat item list (reps nested); None if unknown"""
    n = 0
    sym = []
    for it in items:
        if it[0] == "byte":
            n += 1
        elif it[0] == "rep":
            inner_paths = list(paths(it[3]))
            per = set()
            for _, flat in inner_paths:
                c, s = count_bytes(flat)
                if s:
                    return None, None
                per.add(c)
            if len(per) != 1:
                return None, None
            k = per.pop()
            if it[2] is not None:
                n += it[2] * k
            else:
                sym.append((it[1], k))
    return n, sym
