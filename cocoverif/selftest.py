"""./check selftest - tests the checker both ways on scratch copies of the current tree (outside /repo and /verif):
behaviour-preserving twins must raise no VIOLATION; catalogue mutants must raise one.  Not a property check."""
import ast
import os
import re
import shutil
import subprocess
import sys
import tempfile
from concurrent.futures import ThreadPoolExecutor

HERE = os.path.dirname(os.path.dirname(os.path.abspath(__file__)))
PY = "/venv/bin/python" if os.path.exists("/venv/bin/python") else sys.executable
REPO = os.environ.get("COCOVERIF_REPO", "/repo")


def rd(tree, rel):
    return open(os.path.join(tree, rel)).read()


def wr(tree, rel, s):
    open(os.path.join(tree, rel), "w").write(s)


def sub(tree, rel, old, new, count=1):
    s = rd(tree, rel)
    if s.count(old) != count:
        raise RuntimeError("selftest edit does not apply to %s: %r occurs %d times" % (rel, old[:50], s.count(old)))
    wr(tree, rel, s.replace(old, new))


def all_py(tree):
    out = ["assembler.py", "file_util.py"]
    for dp, dn, fs in os.walk(os.path.join(tree, "cocoasm")):
        for f in fs:
            if f.endswith(".py"):
                out.append(os.path.relpath(os.path.join(dp, f), tree))
    return out


# ---------------------------------------------------------------- behaviour-preserving twins
def t_reformat(tree):
    """every file rewritten by ast.unparse: all layout, comments, literal spellings (hex -> decimal) and line numbers change"""
    for rel in all_py(tree):
        wr(tree, rel, ast.unparse(ast.parse(rd(tree, rel))) + "\n")


def t_shuffle_rows(tree):
    rel = "cocoasm/instruction.py"
    s = rd(tree, rel)
    lines = s.split("\n")
    idx = [i for i, l in enumerate(lines) if l.strip().startswith("Instruction(mnemonic=") and l.rstrip().endswith(",")]
    rows = [lines[i] for i in idx]
    # keep duplicates (ASRB) adjacent-order irrelevant: reverse the block
    for i, r in zip(idx, reversed(rows)):
        lines[i] = r
    wr(tree, rel, "\n".join(lines))


def t_rename_locals(tree):
    rel = "cocoasm/operands.py"
    s = rd(tree, rel)
    for a, b in (("raw_post_byte", "pb"), ("additional_needs_resolution=additional_needs_resolution", "additional_needs_resolution=needs_res"),
                 ("additional_needs_resolution = ", "needs_res = "), ("if additional_needs_resolution:", "if needs_res:"),
                 ("post_byte_choices=post_byte_choices", "post_byte_choices=choices"), ("post_byte_choices = ", "choices = "), ("if not post_byte_choices:", "if not choices:")):
        s = s.replace(a, b)
    wr(tree, rel, s)


def t_is_none(tree):
    rel = "cocoasm/operands.py"
    s = rd(tree, rel)
    for m in ("inh", "imm", "ext", "ind"):
        s = s.replace("if not self.instruction.mode.%s:" % m, "if self.instruction.mode.%s is None:" % m)
    wr(tree, rel, s)


def t_leader_extend(tree):
    rel = "cocoasm/virtualfiles/cassette.py"
    sub(tree, rel, "        for _ in range(128):\n            self.buffer.append(0x55)\n", "        self.buffer.extend([0x55] * 256)\n")


def t_named_constants(tree):
    rel = "cocoasm/virtualfiles/cassette.py"
    s = rd(tree, rel)
    s = s.replace("# C L A S S E S ###", "SYNC_BYTE = 0x55\nMARK_BYTE = 0x3C\nHEADER_LEN = 0x0F\n\n# C L A S S E S ###", 1)
    s = s.replace("self.buffer.append(0x55)\n        self.buffer.append(0x3C)", "self.buffer.append(SYNC_BYTE)\n        self.buffer.append(MARK_BYTE)")
    s = s.replace("self.buffer.append(0x0F)\n        checksum = 0x0F", "self.buffer.append(HEADER_LEN)\n        checksum = HEADER_LEN")
    wr(tree, rel, s)


def t_logging(tree):
    """print/logging statements added at the top of many functions"""
    for rel in ("cocoasm/virtualfiles/virtual_file.py", "cocoasm/virtualfiles/cassette.py", "cocoasm/virtualfiles/disk.py", "cocoasm/program.py", "cocoasm/statement.py"):
        s = rd(tree, rel)
        s = re.sub(r'(\n    def (\w+)\(self[^\n]*\):\n        """)', lambda m: m.group(1), s)
        out = []
        lines = s.split("\n")
        i = 0
        while i < len(lines):
            out.append(lines[i])
            m = re.match(r"    def (add_file|add_coco_file|save_virtual_file|open_virtual_file|append_header|append_eof|write_dir_entry|write_to_fat|translate_statements|fix_addresses|process|add_files)\(", lines[i])
            if m:
                # skip the docstring if any
                j = i + 1
                if j < len(lines) and lines[j].strip().startswith('"""'):
                    if lines[j].strip().count('"""') == 2 and len(lines[j].strip()) > 3:
                        out.append(lines[j])
                        j += 1
                    else:
                        out.append(lines[j])
                        j += 1
                        while '"""' not in lines[j]:
                            out.append(lines[j])
                            j += 1
                        out.append(lines[j])
                        j += 1
                out.append('        print("trace: %s")' % m.group(1))
                i = j
                continue
            i += 1
        wr(tree, rel, "\n".join(out))


def t_messages(tree):
    for rel in all_py(tree):
        s = rd(tree, rel)
        s = re.sub(r'Error\(\s*\n?\s*"', lambda m: m.group(0) + "E: ", s)
        wr(tree, rel, s)


def t_register_ifs_reordered(tree):
    rel = "cocoasm/operands.py"
    old = """        if "X" in self.right:
            raw_post_byte |= 0x00
        if "Y" in self.right:
            raw_post_byte |= 0x20
        if "U" in self.right:
            raw_post_byte |= 0x40
        if "S" in self.right:
            raw_post_byte |= 0x60
"""
    new = """        if "S" in self.right:
            raw_post_byte |= 0x60
        if "U" in self.right:
            raw_post_byte |= 0x40
        if "Y" in self.right:
            raw_post_byte |= 0x20
"""
    sub(tree, rel, old, new, count=2)


def t_floor_div(tree):
    sub(tree, "cocoasm/values.py", 'self.value = NumericValue("{}".format(int(left / right)), mode=mode)', 'self.value = NumericValue("{}".format(left // right), mode=mode)')


def t_tighter_4bit(tree):
    sub(tree, "cocoasm/values.py", "return self.int <= 16 if self.negative else self.int <= 15", "return self.int <= 15 if self.negative else self.int <= 15")


def t_extra_row(tree):
    sub(tree, "cocoasm/instruction.py", '    Instruction(mnemonic="NAM", is_pseudo=True, is_name=True)\n', '    Instruction(mnemonic="NAM", is_pseudo=True, is_name=True),\n    Instruction(mnemonic="TTL", is_pseudo=True)\n')


def t_docstrings_removed(tree):
    class Strip(ast.NodeTransformer):
        def visit_FunctionDef(self, node):
            self.generic_visit(node)
            if node.body and isinstance(node.body[0], ast.Expr) and isinstance(node.body[0].value, ast.Constant) and isinstance(node.body[0].value.value, str) and len(node.body) > 1:
                node.body = node.body[1:]
            return node
    for rel in all_py(tree):
        t = Strip().visit(ast.parse(rd(tree, rel)))
        wr(tree, rel, ast.unparse(ast.fix_missing_locations(t)) + "\n")


def t_rename_params(tree):
    rel = "cocoasm/virtualfiles/cassette.py"
    s = rd(tree, rel)
    s = s.replace("def append_header(self, coco_file):", "def append_header(self, cf):")
    a = s.index("def append_header(self, cf):")
    b = s.index("    def append_name(self, name):")
    body = s[a:b].replace("coco_file.", "cf.").replace(":param coco_file:", ":param cf:")
    s = s[:a] + body + s[b:]
    s = s.replace("def append_data_blocks(self, raw_bytes, gaps=False):", "def append_data_blocks(self, payload, gaps=False):")
    a = s.index("def append_data_blocks(self, payload, gaps=False):")
    b = s.index("    def append_eof(self):")
    body = s[a:b].replace("raw_bytes", "payload")
    s = s[:a] + body + s[b:]
    wr(tree, rel, s)


def t_guard_helper(tree):
    """the overwrite guard of save_virtual_file extracted into a helper that raises"""
    rel = "cocoasm/virtualfiles/virtual_file.py"
    s = rd(tree, rel)
    old = """            if self.file_exists and not append_mode:
                raise FileExistsError(
                    "Target file [{}] already exists, use --append to overwrite".format(
                        self.source_file.get_file_name()
                    )
                )
"""
    assert s.count(old) == 3
    s = s.replace(old, "            self.refuse_overwrite(append_mode)\n")
    s = s.replace("    def add_coco_file(self, coco_file):", '''    def refuse_overwrite(self, append_mode):
        if self.file_exists and not append_mode:
            raise FileExistsError(
                "Target file [{}] already exists, use --append to overwrite".format(
                    self.source_file.get_file_name()
                )
            )

    def add_coco_file(self, coco_file):''')
    wr(tree, rel, s)


def t_loopvar_renamed(tree):
    rel = "cocoasm/program.py"
    s = rd(tree, rel)
    a = s.index("    def translate_statements(self):")
    b = s.index("    def get_binary_array(self):")
    body = re.sub(r"\bstatement\b", "stmt", s[a:b])
    wr(tree, rel, s[:a] + body + s[b:])


def t_helper_methods_added(tree):
    for rel, anchor in (("cocoasm/virtualfiles/disk.py", "    def read_sequence(self, pointer, length, decode=False):"), ("cocoasm/statement.py", "    def get_include_filename(self):")):
        s = rd(tree, rel)
        s = s.replace(anchor, "    def describe(self):\n        return \"{}\".format(type(self).__name__)\n\n" + anchor, 1)
        wr(tree, rel, s)


def t_eof_via_loop(tree):
    """EOF block written through the same accumulate-and-mask idiom as the other blocks"""
    rel = "cocoasm/virtualfiles/cassette.py"
    old = """        self.buffer.append(0x55)
        self.buffer.append(0x3C)
        self.buffer.append(0xFF)
        self.buffer.append(0x00)
        self.buffer.append(0xFF)
        self.buffer.append(0x55)
"""
    new = """        self.buffer.append(0x55)
        self.buffer.append(0x3C)
        self.buffer.append(0xFF)
        self.buffer.append(0x00)
        checksum = 0xFF
        checksum += 0x00
        self.buffer.append(checksum & 0xFF)
        self.buffer.append(0x55)
"""
    sub(tree, rel, old, new)


def t_seek_granule_ge(tree):
    sub(tree, "cocoasm/virtualfiles/disk.py", "        if granule > 33:\n", "        if granule >= 34:\n")


def t_fill_order_other_permutation(tree):
    rel = "cocoasm/virtualfiles/disk.py"
    s = rd(tree, rel)
    a = s.index("    GRANULE_FILL_ORDER = [")
    b = s.index("]", a)
    s = s[:a] + "    GRANULE_FILL_ORDER = list(range(68))\n    UNUSED = [" + s[b:]
    wr(tree, rel, s)


def t_dict_symbol_table_literal(tree):
    sub(tree, "cocoasm/program.py", "        self.symbol_table = dict()\n", "        self.symbol_table = {}\n")


TWINS = [t_reformat, t_shuffle_rows, t_rename_locals, t_is_none, t_leader_extend, t_named_constants, t_logging, t_messages,
         t_register_ifs_reordered, t_floor_div, t_tighter_4bit, t_extra_row, t_docstrings_removed, t_rename_params, t_guard_helper,
         t_loopvar_renamed, t_helper_methods_added, t_eof_via_loop, t_seek_granule_ge, t_fill_order_other_permutation, t_dict_symbol_table_literal]


def run_variant(fn):
    tmp = tempfile.mkdtemp(prefix="cocoself-")
    try:
        tree = os.path.join(tmp, "repo")
        shutil.copytree(REPO, tree, ignore=shutil.ignore_patterns(".git", "__pycache__", ".benchmarks", "test"))
        try:
            fn(tree)
        except Exception as e:
            return fn.__name__, None, "edit failed: %r" % (e,)
        for rel in all_py(tree):
            try:
                compile(rd(tree, rel), rel, "exec")
            except SyntaxError as e:
                return fn.__name__, None, "variant does not compile: %s" % e
        r = subprocess.run([PY, "-B", "-m", "cocoverif", "all", "--root", tree, "--no-evidence"], cwd=HERE, capture_output=True, text=True)
        lines = r.stdout.splitlines()
        viol = [lines[i - 1][:230] for i, l in enumerate(lines) if l.startswith("VIOLATION")]
        errs = [l[:200] for l in lines if l.startswith("ANALYSIS-ERROR")] + ([r.stderr[-300:]] if r.returncode not in (0, 1, 2) else [])
        undec = [l[:160] for l in lines if l.startswith("UNDECIDED")]
        return fn.__name__, viol, {"errors": errs, "undecided": undec}
    finally:
        shutil.rmtree(tmp, ignore_errors=True)


def main():
    from . import selftest_mutants
    bad = 0
    with ThreadPoolExecutor(max_workers=14) as ex:
        twins = list(ex.map(run_variant, TWINS))
        muts = list(ex.map(run_variant, selftest_mutants.MUTANTS))
    print("== behaviour-preserving twins (must stay silent)")
    for name, viol, info in twins:
        if viol is None:
            print("  %-36s EDIT-ERROR %s" % (name, info))
            bad += 1
            continue
        status = "silent" if not viol and not info["errors"] else "ALARM"
        if status == "ALARM":
            bad += 1
        print("  %-36s %s (%d undecided)" % (name, status, len(set(info["undecided"]))))
        for v in viol[:6]:
            print("        " + v)
        for e in info["errors"][:3]:
            print("        " + e)
        if os.environ.get("SELFTEST_VERBOSE"):
            for u in sorted(set(info["undecided"]))[:8]:
                print("        " + u)
    print("== catalogue mutants (must fire)")
    for name, viol, info in muts:
        if viol is None:
            print("  %-36s EDIT-ERROR %s" % (name, info))
            bad += 1
            continue
        status = "fired" if viol else "MISSED"
        if not viol:
            bad += 1
        print("  %-36s %s %s" % (name, status, (viol[0][9:120] if viol else "")))
    print("selftest: %d problem(s)" % bad)
    return 1 if bad else 0
