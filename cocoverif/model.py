"""E1: repository loader. Parses every source file the build covers and exposes
modules, classes (with hierarchy), functions and constant tables.  Nothing is imported or run."""
import ast
import os

REPO = os.environ.get("COCOVERIF_REPO", "/repo")

TOP_FILES = ["assembler.py", "file_util.py"]
PKG_DIR = "cocoasm"


class AnalysisError(Exception):
    """Fail-closed condition: the analysis cannot be performed (exit 2, never a silent pass)."""


def U(node):
    return ast.unparse(node)


class Func:
    def __init__(self, module, cls, node):
        self.module = module
        self.cls = cls            # Class or None
        self.node = node
        self.name = node.name

    @property
    def q(self):
        return (self.cls.name + "." if self.cls else self.module.short + ":") + self.name

    @property
    def params(self):
        a = self.node.args
        return [x.arg for x in a.posonlyargs + a.args]

    @property
    def is_static(self):
        return any(isinstance(d, ast.Name) and d.id == "staticmethod" for d in self.node.decorator_list)

    @property
    def is_classmethod(self):
        return any(isinstance(d, ast.Name) and d.id == "classmethod" for d in self.node.decorator_list)

    def __repr__(self):
        return "<Func %s>" % self.q


class Class:
    def __init__(self, module, node):
        self.module = module
        self.node = node
        self.name = node.name
        self.bases = [U(b) for b in node.bases]
        self.methods = {}
        self.assigns = {}      # class-level simple assignments: name -> value node
        for n in node.body:
            if isinstance(n, (ast.FunctionDef, ast.AsyncFunctionDef)):
                self.methods[n.name] = Func(module, self, n)
            elif isinstance(n, ast.Assign) and len(n.targets) == 1 and isinstance(n.targets[0], ast.Name):
                self.assigns[n.targets[0].id] = n.value
            elif isinstance(n, ast.AnnAssign) and isinstance(n.target, ast.Name) and n.value is not None:
                self.assigns[n.target.id] = n.value

    def __repr__(self):
        return "<Class %s>" % self.name


def _ctxmgr_shape(fdef):
    """@contextmanager def f(...): try: yield  except ...: ...   ->  the Try node, else None"""
    if not any((isinstance(d, ast.Name) and d.id == "contextmanager") or (isinstance(d, ast.Attribute) and d.attr == "contextmanager") for d in fdef.decorator_list):
        return None
    body = [n for n in fdef.body if not (isinstance(n, ast.Expr) and isinstance(n.value, ast.Constant))]
    if len(body) == 1 and isinstance(body[0], ast.Try) and not body[0].orelse and not body[0].finalbody and len(body[0].body) == 1 \
            and isinstance(body[0].body[0], ast.Expr) and isinstance(body[0].body[0].value, ast.Yield):
        # (a value given to `yield` only matters to `with ... as name`, which the desugaring below does not accept)
        return body[0]
    return None


class _WithDesugar(ast.NodeTransformer):
    """with cm(args): BODY   where cm is a generator context manager of the shape above   ->   try: BODY  except ...: (handlers of cm, parameters bound)
    The two are the same program for that shape (PEP 343); every engine then sees an ordinary try statement."""
    def __init__(self, ctxmgrs):
        self.ctxmgrs = ctxmgrs

    def visit_With(self, node):
        self.generic_visit(node)
        if len(node.items) != 1 or node.items[0].optional_vars is not None or not isinstance(node.items[0].context_expr, ast.Call):
            return node
        call = node.items[0].context_expr
        name = call.func.id if isinstance(call.func, ast.Name) else (call.func.attr if isinstance(call.func, ast.Attribute) else None)
        fdef = self.ctxmgrs.get(name)
        if fdef is None or any(k.arg is None for k in call.keywords):
            return node
        tr = _ctxmgr_shape(fdef)
        params = [a.arg for a in fdef.args.args if a.arg not in ("self", "cls")]
        defaults = fdef.args.defaults
        mapping = dict(zip(params[len(params) - len(defaults):], defaults)) if defaults else {}
        for p_, a in zip(params, call.args):
            mapping[p_] = a
        for k in call.keywords:
            mapping[k.arg] = k.value
        if tr is None or any(p_ not in mapping for p_ in params):
            return node
        import copy

        class Sub(ast.NodeTransformer):
            def visit_Name(self, n):
                if isinstance(n.ctx, ast.Load) and n.id in mapping:
                    return ast.copy_location(copy.deepcopy(mapping[n.id]), n)
                return n
        handlers = [Sub().visit(copy.deepcopy(h)) for h in tr.handlers]
        new = ast.Try(body=node.body, handlers=handlers, orelse=[], finalbody=[])
        ast.copy_location(new, node)
        for h in handlers:
            for x in ast.walk(h):
                if not hasattr(x, "lineno"):
                    ast.copy_location(x, node)
        return ast.fix_missing_locations(new)


class Module:
    def __init__(self, rel, path, ctxmgrs=None):
        self.rel = rel
        self.path = path
        self.short = os.path.splitext(os.path.basename(rel))[0]
        try:
            self.src = open(path, encoding="utf-8").read()
            self.tree = ast.parse(self.src, filename=path)
        except (OSError, SyntaxError, ValueError) as e:
            raise AnalysisError("cannot parse %s: %s" % (rel, e))
        if ctxmgrs:
            self.tree = _WithDesugar(ctxmgrs).visit(self.tree)
        self.classes = {}
        self.funcs = {}
        self.assigns = {}     # module-level simple assignments
        self.imports = []     # (module, name, asname)
        for n in self.tree.body:
            if isinstance(n, ast.ClassDef):
                self.classes[n.name] = Class(self, n)
            elif isinstance(n, (ast.FunctionDef, ast.AsyncFunctionDef)):
                self.funcs[n.name] = Func(self, None, n)
            elif isinstance(n, ast.Assign) and len(n.targets) == 1 and isinstance(n.targets[0], ast.Name):
                self.assigns[n.targets[0].id] = n.value
            elif isinstance(n, ast.AnnAssign) and isinstance(n.target, ast.Name) and n.value is not None:
                self.assigns[n.target.id] = n.value
        for n in ast.walk(self.tree):
            if isinstance(n, ast.Import):
                for a in n.names:
                    self.imports.append((a.name, None, a.asname))
            elif isinstance(n, ast.ImportFrom):
                for a in n.names:
                    self.imports.append((n.module or "", a.name, a.asname))


class Repo:
    def __init__(self, root=None):
        self.root = root or REPO
        self.modules = {}
        rels = list(TOP_FILES)
        pkg = os.path.join(self.root, PKG_DIR)
        if not os.path.isdir(pkg):
            raise AnalysisError("package directory %s missing" % pkg)
        for dp, dn, fs in os.walk(pkg):
            dn[:] = sorted(d for d in dn if d != "__pycache__")
            for f in sorted(fs):
                if f.endswith(".py"):
                    rels.append(os.path.relpath(os.path.join(dp, f), self.root))
        # generator context managers of the try / yield / except shape, by name (methods and functions): `with` blocks using them are desugared
        ctxmgrs = {}
        for rel in rels:
            p = os.path.join(self.root, rel)
            try:
                t_ = ast.parse(open(p, encoding="utf-8").read())
            except (OSError, SyntaxError, ValueError):
                continue
            for n_ in ast.walk(t_):
                if isinstance(n_, ast.FunctionDef) and _ctxmgr_shape(n_) is not None:
                    ctxmgrs[n_.name] = n_
        for rel in rels:
            p = os.path.join(self.root, rel)
            if not os.path.exists(p):
                raise AnalysisError("source file %s missing" % rel)
            self.modules[rel] = Module(rel, p, ctxmgrs)
        self.classes = {}
        self.funcs = {}        # qualified name -> Func
        for m in self.modules.values():
            for c in m.classes.values():
                # later definitions of the same class name in other modules are kept under module-qualified key too
                self.classes.setdefault(c.name, c)
                for f in c.methods.values():
                    self.funcs.setdefault(f.q, f)
            for f in m.funcs.values():
                self.funcs[f.q] = f

    # ---- lookups (fail closed) ------------------------------------------------
    def module(self, rel):
        if rel not in self.modules:
            raise AnalysisError("anchor module %s not found" % rel)
        return self.modules[rel]

    def cls(self, name):
        if name not in self.classes:
            raise AnalysisError("anchor class %s not found" % name)
        return self.classes[name]

    def has_cls(self, name):
        return name in self.classes

    def method(self, cls, name, inherited=True):
        c = self.cls(cls)
        m = self.lookup(c, name) if inherited else c.methods.get(name)
        if m is None:
            raise AnalysisError("anchor method %s.%s not found" % (cls, name))
        return m

    def func(self, mod_rel, name):
        m = self.module(mod_rel)
        if name not in m.funcs:
            raise AnalysisError("anchor function %s:%s not found" % (mod_rel, name))
        return m.funcs[name]

    def lookup(self, c, name):
        """method resolution through single inheritance chain (first base that is a repo class)"""
        seen = set()
        while c is not None and c.name not in seen:
            seen.add(c.name)
            if name in c.methods:
                return c.methods[name]
            nxt = None
            for b in c.bases:
                b = b.split(".")[-1]
                if b in self.classes:
                    nxt = self.classes[b]
                    break
            c = nxt
        return None

    def subclasses(self, name, strict=False):
        out = set() if strict else {name}
        frontier = {name}
        while frontier:
            nxt = set()
            for c in self.classes.values():
                if c.name not in out and c.name != name and any(b.split(".")[-1] in frontier for b in c.bases):
                    nxt.add(c.name)
            out |= nxt
            frontier = nxt
        return out

    def ancestors(self, name):
        out = []
        c = self.classes.get(name)
        seen = set()
        while c is not None and c.name not in seen:
            seen.add(c.name)
            out.append(c.name)
            nxt = None
            for b in c.bases:
                b = b.split(".")[-1]
                if b in self.classes:
                    nxt = self.classes[b]
                    break
                out.append(b)
            c = nxt
        return out

    def all_funcs(self):
        for m in self.modules.values():
            for f in m.funcs.values():
                yield f
            for c in m.classes.values():
                for f in c.methods.values():
                    yield f

    def loc(self, func_or_mod, node):
        mod = func_or_mod.module if isinstance(func_or_mod, (Func, Class)) else func_or_mod
        return "%s:%d" % (mod.rel, getattr(node, "lineno", 0))


def body_without_doc(fn_node):
    b = fn_node.body
    if b and isinstance(b[0], ast.Expr) and isinstance(b[0].value, ast.Constant) and isinstance(b[0].value.value, str):
        return b[1:]
    return b


def one_shot_reuse(fn_node):
    """locals bound (once) to a one-shot iterator - a generator expression, iter(), map(), filter(), zip(), enumerate(), reversed() - and consumed at more than one place:
    the first consumer exhausts it, every later one sees nothing.  -> list of (name, binding node, [use nodes])"""
    out = []
    binds = {}
    for n in ast.walk(fn_node):
        if isinstance(n, ast.Assign) and len(n.targets) == 1 and isinstance(n.targets[0], ast.Name):
            binds.setdefault(n.targets[0].id, []).append(n)
    for name, bs in binds.items():
        if len(bs) != 1:
            continue
        v = bs[0].value
        one_shot = isinstance(v, ast.GeneratorExp) or (isinstance(v, ast.Call) and isinstance(v.func, ast.Name) and v.func.id in ("iter", "map", "filter", "zip", "enumerate", "reversed"))
        if not one_shot:
            continue
        uses = [x for x in ast.walk(fn_node) if isinstance(x, ast.Name) and x.id == name and isinstance(x.ctx, ast.Load)]
        # a use inside a loop body that runs more than once also re-consumes it, but that is not judged here: only textually distinct consumers
        consumers = []
        for u in uses:
            consumers.append(u)
        if len(consumers) >= 2 and not any(isinstance(x, ast.Call) and isinstance(x.func, ast.Name) and x.func.id in ("list", "tuple", "sorted") and x.args and isinstance(x.args[0], ast.Name)
                                            and x.args[0].id == name for x in ast.walk(fn_node) if False):
            out.append((name, bs[0], consumers))
    return out
