"""E2: constant folding of expression nodes without importing the module."""
import ast
import operator


class NotConst(Exception):
    pass


BIN = {ast.Add: operator.add, ast.Sub: operator.sub, ast.Mult: operator.mul, ast.FloorDiv: operator.floordiv,
       ast.Mod: operator.mod, ast.BitOr: operator.or_, ast.BitAnd: operator.and_, ast.BitXor: operator.xor,
       ast.LShift: operator.lshift, ast.RShift: operator.rshift, ast.Div: operator.truediv, ast.Pow: operator.pow}
UN = {ast.USub: operator.neg, ast.UAdd: operator.pos, ast.Invert: operator.invert, ast.Not: operator.not_}
CMP = {ast.Eq: operator.eq, ast.NotEq: operator.ne, ast.Lt: operator.lt, ast.LtE: operator.le, ast.Gt: operator.gt,
       ast.GtE: operator.ge, ast.In: lambda a, b: a in b, ast.NotIn: lambda a, b: a not in b,
       ast.Is: operator.is_, ast.IsNot: operator.is_not}


STR_METHODS = {"upper", "lower", "strip", "lstrip", "rstrip", "startswith", "endswith", "split", "ljust", "rjust", "replace", "find", "rfind", "isdigit", "isalpha"}


class Struct:
    """Folded keyword-constructor call, e.g. Instruction(mnemonic=..., mode=Mode(...))."""
    def __init__(self, cls, args, kw, node=None):
        self.cls = cls
        self.args = args
        self.kw = kw
        self.node = node

    def get(self, k, default=None):
        return self.kw.get(k, default)

    def __repr__(self):
        return "%s(%s)" % (self.cls, ", ".join(["%r" % a for a in self.args] + ["%s=%r" % kv for kv in self.kw.items()]))


def fold(node, env=None, ctors=()):
    """env: name -> python value (or dotted 'Class.NAME' -> value). ctors: constructor names folded to Struct."""
    env = env or {}

    def f(n):
        if isinstance(n, ast.Constant):
            return n.value
        if isinstance(n, ast.Name):
            if n.id in env:
                return env[n.id]
            if n.id in ("None", "True", "False"):
                return {"None": None, "True": True, "False": False}[n.id]
            raise NotConst(n.id)
        if isinstance(n, ast.Attribute):
            t = ast.unparse(n)
            if t in env:
                return env[t]
            raise NotConst(t)
        if isinstance(n, ast.BinOp) and type(n.op) in BIN:
            try:
                return BIN[type(n.op)](f(n.left), f(n.right))
            except (TypeError, ZeroDivisionError, ValueError) as e:
                raise NotConst(str(e))
        if isinstance(n, ast.UnaryOp) and type(n.op) in UN:
            return UN[type(n.op)](f(n.operand))
        if isinstance(n, ast.List):
            return [f(e) for e in n.elts]
        if isinstance(n, ast.Tuple):
            return tuple(f(e) for e in n.elts)
        if isinstance(n, ast.Set):
            return set(f(e) for e in n.elts)
        if isinstance(n, ast.Dict):
            return {f(k): f(v) for k, v in zip(n.keys, n.values)}
        if isinstance(n, ast.Compare) and len(n.ops) == 1 and type(n.ops[0]) in CMP:
            return CMP[type(n.ops[0])](f(n.left), f(n.comparators[0]))
        if isinstance(n, ast.BoolOp):
            vals = [f(v) for v in n.values]
            if isinstance(n.op, ast.And):
                r = True
                for v in vals:
                    r = v
                    if not v:
                        break
                return r
            r = False
            for v in vals:
                r = v
                if v:
                    break
            return r
        if isinstance(n, ast.IfExp):
            return f(n.body) if f(n.test) else f(n.orelse)
        if isinstance(n, ast.Subscript):
            base = f(n.value)
            if isinstance(n.slice, ast.Slice):
                lo = f(n.slice.lower) if n.slice.lower else None
                hi = f(n.slice.upper) if n.slice.upper else None
                st = f(n.slice.step) if n.slice.step else None
                return base[lo:hi:st]
            try:
                return base[f(n.slice)]
            except (KeyError, IndexError, TypeError) as e:
                raise NotConst(str(e))
        if isinstance(n, ast.Call):
            fn = ast.unparse(n.func)
            if fn in ctors:
                return Struct(fn, [f(a) for a in n.args], {k.arg: f(k.value) for k in n.keywords if k.arg}, n)
            if fn in ("len", "int", "ord", "chr", "list", "tuple", "sorted", "range", "set", "dict", "min", "max", "abs", "sum") and not n.keywords:
                args = [f(a) for a in n.args]
                try:
                    r = {"len": len, "int": int, "ord": ord, "chr": chr, "list": list, "tuple": tuple, "sorted": sorted,
                         "range": range, "set": set, "dict": dict, "min": min, "max": max, "abs": abs, "sum": sum}[fn](*args)
                    return list(r) if isinstance(r, range) else r
                except Exception as e:
                    raise NotConst(str(e))
            if isinstance(n.func, ast.Attribute) and n.func.attr in STR_METHODS and not n.keywords:
                recv = f(n.func.value)
                if isinstance(recv, str):
                    try:
                        return getattr(recv, n.func.attr)(*[f(a) for a in n.args])
                    except Exception as e:
                        raise NotConst(str(e))
            raise NotConst(fn)
        raise NotConst(type(n).__name__)

    return f(node)


def try_fold(node, env=None, ctors=(), default=None):
    try:
        return fold(node, env, ctors)
    except NotConst:
        return default


def module_env(repo):
    """All foldable module-level and class-level constants of the repository, by bare name and Class.NAME."""
    env = {}
    progress = True
    rounds = 0
    while progress and rounds < 4:
        progress = False
        rounds += 1
        for m in repo.modules.values():
            for name, val in m.assigns.items():
                if name in env:
                    continue
                try:
                    v = fold(val, env)
                except NotConst:
                    continue
                env[name] = v
                progress = True
            for c in m.classes.values():
                for name, val in c.assigns.items():
                    k = "%s.%s" % (c.name, name)
                    if k in env:
                        continue
                    local = dict(env)
                    for n2 in c.assigns:
                        if "%s.%s" % (c.name, n2) in env:
                            local[n2] = env["%s.%s" % (c.name, n2)]
                    try:
                        v = fold(val, local)
                    except NotConst:
                        continue
                    env[k] = v
                    progress = True
    return env


class Returned(Exception):
    def __init__(self, value):
        self.value = value


def fold_body(stmts, env, ctors=()):
    """evaluate straight-line arithmetic code (assignments, augmented assignments, if/else on foldable tests, return)
    over a constant environment; returns the returned value.  Raises NotConst for anything else."""
    env = dict(env)

    def run(stmts):
        for st in stmts:
            if isinstance(st, ast.Expr) and isinstance(st.value, ast.Constant):
                continue
            if isinstance(st, ast.Assign) and len(st.targets) == 1 and isinstance(st.targets[0], (ast.Name, ast.Attribute)):
                env[ast.unparse(st.targets[0])] = fold(st.value, env, ctors)
            elif isinstance(st, ast.AugAssign) and isinstance(st.target, (ast.Name, ast.Attribute)) and type(st.op) in BIN:
                k = ast.unparse(st.target)
                if k not in env:
                    raise NotConst(k)
                env[k] = BIN[type(st.op)](env[k], fold(st.value, env, ctors))
            elif isinstance(st, ast.If):
                run(st.body if fold(st.test, env, ctors) else st.orelse)
            elif isinstance(st, ast.Return):
                raise Returned(fold(st.value, env, ctors) if st.value is not None else None)
            elif isinstance(st, ast.Pass):
                continue
            else:
                raise NotConst("statement " + type(st).__name__)
    try:
        run(stmts)
    except Returned as r:
        return r.value
    return None
