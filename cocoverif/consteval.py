"""E2: constant folding of expression nodes without importing the module."""
import ast
import operator
import re as _re

BUILTIN_TYPES = {"int": int, "str": str, "bool": bool, "float": float, "bytes": bytes, "list": list, "tuple": tuple, "dict": dict, "set": set}


class NotConst(Exception):
    pass


BIN = {ast.Add: operator.add, ast.Sub: operator.sub, ast.Mult: operator.mul, ast.FloorDiv: operator.floordiv,
       ast.Mod: operator.mod, ast.BitOr: operator.or_, ast.BitAnd: operator.and_, ast.BitXor: operator.xor,
       ast.LShift: operator.lshift, ast.RShift: operator.rshift, ast.Div: operator.truediv, ast.Pow: operator.pow}
UN = {ast.USub: operator.neg, ast.UAdd: operator.pos, ast.Invert: operator.invert, ast.Not: operator.not_}
CMP = {ast.Eq: operator.eq, ast.NotEq: operator.ne, ast.Lt: operator.lt, ast.LtE: operator.le, ast.Gt: operator.gt,
       ast.GtE: operator.ge, ast.In: lambda a, b: a in b, ast.NotIn: lambda a, b: a not in b,
       ast.Is: operator.is_, ast.IsNot: operator.is_not}


STR_METHODS = {"join", "format", "zfill", "title", "capitalize", "expandtabs", "splitlines", "partition", "rpartition", "count", "isspace", "isupper", "islower", "isalnum", "center", "encode", "upper", "lower", "strip", "lstrip", "rstrip", "startswith", "endswith", "split", "ljust", "rjust", "replace", "find", "rfind", "isdigit", "isalpha"}


class Struct:
    """Folded keyword-constructor call, e.g. Instruction(mnemonic=..., mode=Mode(...))."""
    def __init__(self, cls, args, kw, node=None):
        self.cls = cls
        self.args = args
        self.kw = kw
        self.node = node

    def get(self, k, default=None):
        return self.kw.get(k, default)

    def __repr__(self):
        return "%s(%s)" % (self.cls, ", ".join(["%r" % a for a in self.args] + ["%s=%r" % kv for kv in self.kw.items()]))


def fold(node, env=None, ctors=()):
    """env: name -> python value (or dotted 'Class.NAME' -> value). ctors: constructor names folded to Struct."""
    env = env if env is not None else {}

    def f(n):
        if isinstance(n, ast.Constant):
            return n.value
        if isinstance(n, ast.Name):
            if n.id in env:
                return env[n.id]
            if n.id in ("None", "True", "False"):
                return {"None": None, "True": True, "False": False}[n.id]
            if n.id in BUILTIN_TYPES:
                return BUILTIN_TYPES[n.id]
            raise NotConst(n.id)
        if isinstance(n, ast.Attribute):
            t = ast.unparse(n)
            if t in env:
                return env[t]
            hook = env.get("$objcall")
            if hook is not None and isinstance(n.value, ast.Call) and isinstance(n.value.func, ast.Name) and n.value.func.id in hook[0]:
                inner = n.value
                return hook[1](inner.func.id, [f(a) for a in inner.args], {k.arg: f(k.value) for k in inner.keywords if k.arg}, "@" + n.attr, [], {})
            if t.startswith("re.") and t[3:].isupper() and hasattr(_re, t[3:]):
                return getattr(_re, t[3:])
            if n.attr in ("value", "name"):
                try:
                    base = f(n.value)
                except NotConst:
                    base = None
                if isinstance(base, EnumVal):
                    return getattr(base, n.attr)
                if n.attr == "value" and isinstance(base, int) and not isinstance(base, bool) and isinstance(n.value, ast.Name):
                    return base       # a member of an IntEnum is its value
            raise NotConst(t)
        if isinstance(n, (ast.ListComp, ast.GeneratorExp, ast.SetComp)) and len(n.generators) == 1 and not n.generators[0].is_async:
            g = n.generators[0]
            seq = f(g.iter)
            out = []
            saved = dict(env)
            try:
                for x in list(seq):
                    if isinstance(g.target, ast.Name):
                        env[g.target.id] = x
                    elif isinstance(g.target, ast.Tuple) and all(isinstance(e, ast.Name) for e in g.target.elts):
                        for e, y in zip(g.target.elts, x):
                            env[e.id] = y
                    else:
                        raise NotConst("comprehension target")
                    if all(f(c) for c in g.ifs):
                        out.append(f(n.elt))
            finally:
                for k in list(env):
                    if k not in saved:
                        del env[k]
                env.update(saved)
            return set(out) if isinstance(n, ast.SetComp) else out
        if isinstance(n, ast.BinOp) and type(n.op) in BIN:
            try:
                return BIN[type(n.op)](f(n.left), f(n.right))
            except (TypeError, ZeroDivisionError, ValueError) as e:
                raise NotConst(str(e))
        if isinstance(n, ast.UnaryOp) and type(n.op) in UN:
            return UN[type(n.op)](f(n.operand))
        if isinstance(n, ast.List):
            return [f(e) for e in n.elts]
        if isinstance(n, ast.Tuple):
            return tuple(f(e) for e in n.elts)
        if isinstance(n, ast.Set):
            return set(f(e) for e in n.elts)
        if isinstance(n, ast.Dict):
            return {f(k): f(v) for k, v in zip(n.keys, n.values)}
        if isinstance(n, ast.Compare) and len(n.ops) == 1 and type(n.ops[0]) in CMP:
            try:
                return CMP[type(n.ops[0])](f(n.left), f(n.comparators[0]))
            except TypeError as e:
                raise NotConst(str(e))
        if isinstance(n, ast.Compare) and len(n.ops) > 1 and all(type(o) in CMP for o in n.ops):
            # a < b <= c : pairwise, left to right, short-circuit
            left = f(n.left)
            for o, cmp_ in zip(n.ops, n.comparators):
                right = f(cmp_)
                try:
                    if not CMP[type(o)](left, right):
                        return False
                except TypeError as e:
                    raise NotConst(str(e))
                left = right
            return True
        if isinstance(n, ast.BoolOp):
            if isinstance(n.op, ast.And):
                r = True
                for v in n.values:
                    r = f(v)
                    if not r:
                        break
                return r
            r = False
            for v in n.values:
                r = f(v)
                if r:
                    break
            return r
        if isinstance(n, ast.IfExp):
            return f(n.body) if f(n.test) else f(n.orelse)
        if isinstance(n, ast.Subscript):
            base = f(n.value)
            if isinstance(n.slice, ast.Slice):
                lo = f(n.slice.lower) if n.slice.lower else None
                hi = f(n.slice.upper) if n.slice.upper else None
                st = f(n.slice.step) if n.slice.step else None
                return base[lo:hi:st]
            try:
                return base[f(n.slice)]
            except (KeyError, IndexError, TypeError) as e:
                raise NotConst(str(e))
        if isinstance(n, ast.Call):
            fn = ast.unparse(n.func)
            cm = env.get("$calls")
            if cm and fn in cm:
                # a sibling helper the caller folds by re-entry (arguments are folded here, where comprehension variables are bound)
                return cm[fn](*[f(a) for a in n.args], **{k.arg: f(k.value) for k in n.keywords if k.arg})
            hook = env.get("$objcall")
            if hook is not None and isinstance(n.func, ast.Name) and n.func.id in hook[0]:
                # a constructor call on its own: the object is kept as a token and its methods are folded when they are called
                return hook[1](n.func.id, [f(a) for a in n.args], {k.arg: f(k.value) for k in n.keywords if k.arg}, "@new", [], {})
            if hook is not None and isinstance(n.func, ast.Attribute) and not isinstance(n.func.value, ast.Call):
                try:
                    recv_ = f(n.func.value)
                except NotConst:
                    recv_ = None
                if isinstance(recv_, ObjTok):
                    return hook[1](recv_.cls, recv_, None, n.func.attr, [f(a) for a in n.args], {k.arg: f(k.value) for k in n.keywords if k.arg})
            if hook is not None and isinstance(n.func, ast.Attribute) and isinstance(n.func.value, ast.Call) and isinstance(n.func.value.func, ast.Name) \
                    and n.func.value.func.id in hook[0]:
                # <Class>(args).<method>(args) on a class the caller can fold: constructor and method are folded by the caller's hook
                inner = n.func.value
                return hook[1](inner.func.id, [f(a) for a in inner.args], {k.arg: f(k.value) for k in inner.keywords if k.arg},
                               n.func.attr, [f(a) for a in n.args], {k.arg: f(k.value) for k in n.keywords if k.arg})
            if fn in ctors:
                return Struct(fn, [f(a) for a in n.args], {k.arg: f(k.value) for k in n.keywords if k.arg}, n)
            if fn in ("re.search", "re.match", "re.fullmatch", "re.findall", "re.split", "re.sub", "re.escape") and not n.keywords:
                args_ = [f(a) for a in n.args]
                try:
                    return getattr(_re, fn[3:])(*args_)
                except _re.error:
                    raise Raised("re.error")
                except Exception as e:
                    raise NotConst(str(e))
            if fn == "re.compile" and not n.keywords:
                try:
                    return _re.compile(*[f(a) for a in n.args])
                except _re.error as e:
                    raise NotConst(str(e))
            if isinstance(n.func, ast.Attribute) and n.func.attr in ("match", "fullmatch", "search", "group", "groups", "groupdict", "start", "end") and not n.keywords:
                try:
                    recv = f(n.func.value)
                except NotConst:
                    recv = None
                if isinstance(recv, (_re.Pattern, _re.Match)):
                    try:
                        return getattr(recv, n.func.attr)(*[f(a) for a in n.args])
                    except (IndexError, TypeError, _re.error) as e:
                        raise NotConst(str(e))
            if fn in ("len", "int", "ord", "chr", "list", "tuple", "sorted", "range", "set", "dict", "min", "max", "abs", "sum") and not n.keywords:
                args = [f(a) for a in n.args]
                try:
                    r = {"len": len, "int": int, "ord": ord, "chr": chr, "list": list, "tuple": tuple, "sorted": sorted,
                         "range": range, "set": set, "dict": dict, "min": min, "max": max, "abs": abs, "sum": sum}[fn](*args)
                    return list(r) if isinstance(r, range) else r
                except Exception as e:
                    raise NotConst(str(e))
            if isinstance(n.func, ast.Attribute) and n.func.attr in ("items", "keys", "values", "get", "index", "count", "copy") and not n.keywords:
                recv = f(n.func.value)
                if isinstance(recv, (dict, list, tuple)):
                    try:
                        r = getattr(recv, n.func.attr)(*[f(a) for a in n.args])
                        return list(r) if n.func.attr in ("items", "keys", "values") else r
                    except Exception as e:
                        raise NotConst(str(e))
            if fn in ("math.ceil", "math.floor", "ceil", "floor", "math.trunc") and len(n.args) == 1 and not n.keywords:
                import math
                try:
                    return getattr(math, fn.split(".")[-1])(f(n.args[0]))
                except (TypeError, ValueError, OverflowError) as e:
                    raise NotConst(str(e))
            if fn in ("type", "isinstance", "bool", "str", "hex", "divmod", "round", "enumerate", "zip", "reversed", "any", "all") and not n.keywords:
                args = [f(a) for a in n.args]
                try:
                    r = {"type": type, "isinstance": isinstance, "bool": bool, "str": str, "hex": hex, "divmod": divmod, "round": round,
                         "enumerate": lambda *a: list(enumerate(*a)), "zip": lambda *a: list(zip(*a)), "reversed": lambda a: list(reversed(a)), "any": any, "all": all}[fn](*args)
                    return r
                except Exception as e:
                    raise NotConst(str(e))
            if isinstance(n.func, ast.Attribute) and n.func.attr in STR_METHODS and not n.keywords:
                recv = f(n.func.value)
                if isinstance(recv, str):
                    try:
                        return getattr(recv, n.func.attr)(*[f(a) for a in n.args])
                    except Exception as e:
                        raise NotConst(str(e))
            if isinstance(n.func, ast.Attribute) and n.func.attr in ("decode", "hex") and not n.keywords:
                recv = f(n.func.value)
                if isinstance(recv, (bytes, bytearray)):
                    try:
                        return getattr(recv, n.func.attr)(*[f(a) for a in n.args])
                    except Exception as e:
                        raise NotConst(str(e))
            raise NotConst(fn)
        raise NotConst(type(n).__name__)

    return f(node)


def try_fold(node, env=None, ctors=(), default=None):
    try:
        return fold(node, env, ctors)
    except NotConst:
        return default


class ObjTok:
    """an object of a repository class built by folding its constructor (the caller's $objcall hook): .state is the folded attribute environment"""
    def __init__(self, cls, state):
        self.cls, self.state = cls, state

    def __repr__(self):
        return "<%s object>" % self.cls


class EnumVal:
    """member of a plain Enum class: always truthy, equal to the members of the same class that have the same value (aliases)"""
    __slots__ = ("cls", "name", "value")

    def __init__(self, cls, name, value):
        self.cls, self.name, self.value = cls, name, value

    def __eq__(self, o):
        return isinstance(o, EnumVal) and o.cls == self.cls and o.value == self.value

    def __ne__(self, o):
        return not self.__eq__(o)

    def __hash__(self):
        return hash((self.cls, repr(self.value)))

    def __bool__(self):
        return True

    def __repr__(self):
        return "%s.%s" % (self.cls, self.name)


def module_env(repo):
    """All foldable module-level and class-level constants of the repository, by bare name and Class.NAME."""
    env = {}
    progress = True
    rounds = 0
    while progress and rounds < 4:
        progress = False
        rounds += 1
        for m in repo.modules.values():
            for name, val in m.assigns.items():
                if name in env:
                    continue
                try:
                    v = fold(val, env)
                except NotConst:
                    continue
                env[name] = v
                progress = True
            for c in m.classes.values():
                for name, val in c.assigns.items():
                    k = "%s.%s" % (c.name, name)
                    if k in env:
                        continue
                    local = dict(env)
                    for n2 in c.assigns:
                        if "%s.%s" % (c.name, n2) in env:
                            local[n2] = env["%s.%s" % (c.name, n2)]
                    try:
                        v = fold(val, local)
                    except NotConst:
                        continue
                    if [b.split(".")[-1] for b in c.bases] == ["Enum"] and not name.startswith("_") and not isinstance(v, EnumVal):
                        v = EnumVal(c.name, name, v)
                        members = env.setdefault(c.name, [])       # iterating the Enum class yields its members in definition order (aliases excluded)
                        if isinstance(members, list) and all(m_.value != v.value for m_ in members):
                            members.append(v)
                    if [b.split(".")[-1] for b in c.bases] in (["IntEnum"], ["IntFlag"]) and not name.startswith("_") and isinstance(v, int):
                        members = env.setdefault(c.name, [])
                        if isinstance(members, list) and v not in members:
                            members.append(v)
                    env[k] = v
                    progress = True
    return env


class Returned(Exception):
    def __init__(self, value):
        self.value = value


class Raised(Exception):
    """the folded code reached a raise statement"""
    def __init__(self, name):
        self.name = name


class _Break(Exception):
    pass


class _Continue(Exception):
    pass


def fold_body(stmts, env, ctors=(), calls=None, max_steps=20000, final=None):
    """evaluate closed helper code (assignments, augmented assignments, if/else, for over constant sequences, return, raise)
    over a constant environment; returns the returned value, raises Raised(name) when the code raises, NotConst otherwise.
    `calls`: optional {call text: python callable} for sibling helpers."""
    env = dict(env)
    if calls:
        env["$calls"] = calls
    steps = [0]

    def ffold(n):
        return fold(n, env, ctors)

    def assign(t, v):
        if isinstance(t, (ast.Name, ast.Attribute)):
            env[ast.unparse(t)] = v
        elif isinstance(t, (ast.Tuple, ast.List)):
            vals = list(v)
            if len(vals) != len(t.elts):
                raise NotConst("unpack")
            for e, x in zip(t.elts, vals):
                assign(e, x)
        elif isinstance(t, ast.Subscript):
            base = ffold(t.value)
            try:
                base[ffold(t.slice)] = v
            except Exception as e:
                raise NotConst(str(e))
        else:
            raise NotConst("target " + type(t).__name__)

    def run(stmts):
        for st in stmts:
            steps[0] += 1
            if steps[0] > max_steps:
                raise NotConst("step limit")
            if isinstance(st, ast.Expr):
                if isinstance(st.value, ast.Constant):
                    continue
                if isinstance(st.value, ast.Call) and isinstance(st.value.func, ast.Attribute) and st.value.func.attr in ("append", "extend", "add", "update"):
                    recv = ffold(st.value.func.value)
                    try:
                        getattr(recv, st.value.func.attr)(*[ffold(a) for a in st.value.args])
                    except Exception as e:
                        raise NotConst(str(e))
                    continue
                if isinstance(st.value, ast.Call) and ast.unparse(st.value.func) in ("print", "logging.debug", "logging.info"):
                    continue
                if calls and isinstance(st.value, ast.Call) and ast.unparse(st.value.func) in calls:
                    ffold(st.value)
                    continue
                raise NotConst("expression statement " + ast.unparse(st)[:40])
            if isinstance(st, ast.Assign):
                v = ffold(st.value)
                for t in st.targets:
                    assign(t, v)
            elif isinstance(st, ast.AnnAssign) and st.value is not None:
                assign(st.target, ffold(st.value))
            elif isinstance(st, ast.AugAssign) and type(st.op) in BIN:
                k = ast.unparse(st.target)
                if k not in env:
                    raise NotConst(k)
                try:
                    env[k] = BIN[type(st.op)](env[k], ffold(st.value))
                except TypeError as e:
                    raise NotConst(str(e))
            elif isinstance(st, ast.If):
                run(st.body if ffold(st.test) else st.orelse)
            elif isinstance(st, ast.For):
                it = ffold(st.iter)
                try:
                    seq = list(it.items()) if False else list(it)
                except TypeError:
                    raise NotConst("iteration")
                broke = False
                for x in seq:
                    assign(st.target, x)
                    try:
                        run(st.body)
                    except _Break:
                        broke = True
                        break
                    except _Continue:
                        continue
                if not broke:
                    run(st.orelse)
            elif isinstance(st, ast.While):
                broke = False
                while ffold(st.test):
                    steps[0] += 1
                    if steps[0] > max_steps:
                        raise NotConst("step limit")
                    try:
                        run(st.body)
                    except _Break:
                        broke = True
                        break
                    except _Continue:
                        continue
                if not broke:
                    run(st.orelse)
            elif isinstance(st, ast.Break):
                raise _Break()
            elif isinstance(st, ast.Continue):
                raise _Continue()
            elif isinstance(st, ast.Return):
                raise Returned(ffold(st.value) if st.value is not None else None)
            elif isinstance(st, ast.Raise):
                name = ast.unparse(st.exc.func) if isinstance(st.exc, ast.Call) else (ast.unparse(st.exc) if st.exc is not None else "reraise")
                raise Raised(name)
            elif isinstance(st, ast.Pass):
                continue
            elif isinstance(st, ast.Try) and not st.finalbody:
                # a raise statement reached inside the body is caught by the first handler that names its class (or a base named Exception / nothing);
                # a bare `raise` inside the handler raises it again
                try:
                    run(st.body)
                except Raised as e_:
                    h_ = next((h for h in st.handlers if h.type is None or e_.name.split(".")[-1] in
                               {ast.unparse(t_).split(".")[-1] for t_ in (h.type.elts if isinstance(h.type, ast.Tuple) else [h.type])} | set()
                               or ast.unparse(h.type) in ("Exception", "BaseException")), None)
                    if h_ is None:
                        # the class hierarchy is not known here: a handler naming another class may still be a base of what was raised
                        raise NotConst("handler for %s not decidable by name" % e_.name)
                    if h_.name:
                        env[h_.name] = "<%s>" % e_.name
                    try:
                        run(h_.body)
                    except Raised as e2_:
                        raise Raised(e_.name if e2_.name == "reraise" else e2_.name)
                else:
                    run(st.orelse)
            else:
                raise NotConst("statement " + type(st).__name__)
    try:
        run(stmts)
    except Returned as r:
        if final is not None:
            final.update(env)
        return r.value
    if final is not None:
        final.update(env)
    return None
