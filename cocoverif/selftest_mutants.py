"""Catalogue of single-site edits that break a property while the tree still compiles (DESIGN.md appendix A); each must make a check fire."""
from .selftest import sub, rd, wr

I = "cocoasm/instruction.py"
O = "cocoasm/operands.py"
V = "cocoasm/values.py"
S = "cocoasm/statement.py"
P = "cocoasm/program.py"
C = "cocoasm/virtualfiles/cassette.py"
D = "cocoasm/virtualfiles/disk.py"
VFP = "cocoasm/virtualfiles/virtual_file.py"


def mk(name, rel, old, new, count=1):
    def f(tree):
        sub(tree, rel, old, new, count)
    f.__name__ = name
    return f


MUTANTS = [
    mk("m_adca_imm_opcode", I, "imm=0x89, imm_sz=2, dir=0x99", "imm=0x88, imm_sz=2, dir=0x99"),
    mk("m_ldy_ext_size", I, "ext=0x10BE, ext_sz=4", "ext=0x10BE, ext_sz=3"),
    mk("m_cmpx_16bit_dropped", I, "ext=0xBC, ext_sz=3), is_16_bit=True)", "ext=0xBC, ext_sz=3))"),
    mk("m_lbra_size", I, 'mode=Mode(rel=0x16, rel_sz=3)', 'mode=Mode(rel=0x16, rel_sz=4)'),
    mk("m_daa_row_deleted", I, '    Instruction(mnemonic="DAA", mode=Mode(inh=0x19, inh_sz=1)),\n', ''),
    mk("m_beq_short_flag", I, 'Instruction(mnemonic="BEQ", mode=Mode(rel=0x27, rel_sz=2), is_short_branch=True)', 'Instruction(mnemonic="BEQ", mode=Mode(rel=0x27, rel_sz=2))'),
    mk("m_d_offset_postbyte", O, "                raw_post_byte |= 0x0B\n", "                raw_post_byte |= 0x0A\n"),
    mk("m_16bit_arm_size", O, "                    raw_post_byte |= 0x89\n                    size += 2\n", "                    raw_post_byte |= 0x89\n                    size += 1\n"),
    mk("m_ext_indirect_9f", O, "post_byte=NumericValue(0x9F)", "post_byte=NumericValue(0x9E)", count=2),
    mk("m_psh_mask_x", O, 'post_byte |= 0x10 if register == "X" else 0x00', 'post_byte |= 0x20 if register == "X" else 0x00'),
    mk("m_tfr_legality", O, "0x01, 0x10, 0x02, 0x20,", "0x01, 0x10, 0x02, 0x20, 0x81,"),
    mk("m_immediate_column", O, "            size=self.instruction.mode.imm_sz,\n            max_size=self.instruction.mode.imm_sz,\n        )\n\n\nclass DirectOperand", "            size=self.instruction.mode.dir_sz,\n            max_size=self.instruction.mode.imm_sz,\n        )\n\n\nclass DirectOperand"),
    mk("m_extended_availability_deleted", O, """        if not self.instruction.mode.ext:
            raise OperandTypeError(
                "Instruction [{}] does not support extended addressing".format(self.instruction.mnemonic)
            )
""", ""),
    mk("m_pcr_choices_swapped", O, "post_byte_choices = [0x8C, 0x8D]", "post_byte_choices = [0x8D, 0x8C]"),
    mk("m_is_8_bit_bound", V, "return self.int <= 128 if self.negative else self.int <= 127", "return self.int <= 128 if self.negative else self.int <= 128"),
    mk("m_is_4_bit_bound", V, "return self.int <= 16 if self.negative else self.int <= 15", "return self.int <= 17 if self.negative else self.int <= 15"),
    mk("m_hex_digit_limit", V, 'if len(data.group("value")) > 4:', 'if len(data.group("value")) > 5:'),
    mk("m_sub_operands_swapped", V, 'NumericValue("{}".format(left - right), mode=mode)', 'NumericValue("{}".format(right - left), mode=mode)'),
    mk("m_multiword_width", V, "self.hex_array = [NumericValue(x).hex(size=4) for x in values if x != \"\"]", "self.hex_array = [NumericValue(x).hex(size=2) for x in values if x != \"\"]"),
    mk("m_mnemonic_upper_removed", S, 'self.mnemonic = data.group("mnemonic").upper() or ""', 'self.mnemonic = data.group("mnemonic") or ""'),
    mk("m_branch_slice", S, "for statement in statements[this_index+1:branch_index]:", "for statement in statements[this_index:branch_index]:"),
    mk("m_branch_base", S, "base_value = 0x101 if self.instruction.is_short_branch else 0x10001", "base_value = 0x100 if self.instruction.is_short_branch else 0x10001"),
    mk("m_pcr_threshold", S, "if min_size <= 127 and max_size <= 127:", "if min_size <= 129 and max_size <= 129:"),
    mk("m_pcr_8bit_size", S, "                self.code_pkg.size += 1\n                self.code_pkg.max_size = self.code_pkg.size\n                self.pcr_size_hint = 2", "                self.code_pkg.size += 2\n                self.code_pkg.max_size = self.code_pkg.size\n                self.pcr_size_hint = 2", count=2),
    mk("m_pcr_own_size_dropped", S, "jump_amount = relative_address - start_address - self.code_pkg.size", "jump_amount = relative_address - start_address"),
    mk("m_resolve_handler_narrowed", S, """            self.operand = self.operand.resolve_symbols(symbol_table)
        except Exception as error:""", """            self.operand = self.operand.resolve_symbols(symbol_table)
        except ValueError as error:"""),
    mk("m_passes_merged", P, """            self.save_symbol(index, statement)

        for index, statement in enumerate(self.statements):
            statement.resolve_symbols(self.symbol_table)
""", """            self.save_symbol(index, statement)
            statement.resolve_symbols(self.symbol_table)
"""),
    mk("m_address_step", P, "            address += statement.code_pkg.size\n", "            address += statement.code_pkg.max_size\n"),
    mk("m_redefinition_raise_removed", P, """            if label in self.symbol_table:
                raise TranslationError("Label [" + label + "] redefined", statement)
""", ""),
    mk("m_emission_order", P, "for index in range(0, statement.code_pkg.op_code.hex_len(), 2):\n                    op_code = statement.code_pkg.op_code.hex()", "for index in range(0, statement.code_pkg.op_code.hex_len(), 2):\n                    op_code = statement.code_pkg.post_byte.hex()"),
    mk("m_class_level_symbol_table", P, "    def __init__(self):\n        self.symbol_table = dict()\n", "    symbol_table = dict()\n\n    def __init__(self):\n"),
    mk("m_input_mutated", P, "        self.statements = self.parse(source_file)\n", "        source_file.append(\"\")\n        self.statements = self.parse(source_file)\n"),
    mk("m_checksum_term_dropped", C, "        checksum += coco_file.data_type.int\n", ""),
    mk("m_header_len", C, "        self.buffer.append(0x0F)\n        checksum = 0x0F\n", "        self.buffer.append(0x10)\n        checksum = 0x10\n"),
    mk("m_data_len_byte", C, "            self.buffer.append(0xFF)\n\n        # Data to write", "            self.buffer.append(0xFE)\n\n        # Data to write"),
    mk("m_continuation_slice", C, "self.append_data_blocks(raw_bytes[255:])", "self.append_data_blocks(raw_bytes[256:])"),
    mk("m_eof_checksum", C, "        self.buffer.append(0x00)\n        self.buffer.append(0xFF)\n        self.buffer.append(0x55)\n", "        self.buffer.append(0x00)\n        self.buffer.append(0x00)\n        self.buffer.append(0x55)\n"),
    mk("m_reader_skip", C, "        # Skip length byte (always $0F)\n        pointer += 4\n", "        # Skip length byte (always $0F)\n        pointer += 3\n"),
    mk("m_reader_load_exec_swapped", C, "            load_addr=load_addr,\n            exec_addr=exec_addr,\n            data=data\n", "            load_addr=exec_addr,\n            exec_addr=load_addr,\n            data=data\n"),
    mk("m_fat_offset", D, "    FAT_OFFSET = 78592\n", "    FAT_OFFSET = 78593\n"),
    mk("m_seek_threshold", D, "        if granule > 33:\n", "        if granule > 34:\n"),
    mk("m_fat_terminator", D, "= 0xC0 + last_granule_sectors_used", "= 0x80 + last_granule_sectors_used"),
    mk("m_blanking_start", D, "for pointer in range(78660, 78848):", "for pointer in range(78650, 78848):"),
    mk("m_dir_type_flag_swapped", D, "        self.buffer[pointer] = coco_file.type.int\n        pointer += 1\n\n        self.buffer[pointer] = coco_file.data_type.int\n", "        self.buffer[pointer] = coco_file.data_type.int\n        pointer += 1\n\n        self.buffer[pointer] = coco_file.type.int\n"),
    mk("m_dir_reader_advance", D, "                pointer += 18\n", "                pointer += 16\n"),
    mk("m_provisional_mark_removed", D, "            self.buffer[DiskConstants.FAT_OFFSET + granule] = 0x99\n", ""),
    mk("m_fill_order_dup", D, "32, 33, 34, 35, 30, 31,", "32, 33, 34, 35, 30, 30,"),
    mk("m_postamble_byte1", D, "        buffer[pointer + 1] = 0\n        buffer[pointer + 2] = 0\n", "        buffer[pointer + 1] = 1\n        buffer[pointer + 2] = 0\n"),
    mk("m_guard_deleted_one_branch", VFP, """            binary_file.add_files(self.coco_file_list)
            if self.file_exists and not append_mode:
                raise FileExistsError(
                    "Target file [{}] already exists, use --append to overwrite".format(
                        self.source_file.get_file_name()
                    )
                )
""", "            binary_file.add_files(self.coco_file_list)\n"),
    mk("m_sniff_order", VFP, """        try:
            disk_file = DiskFile(buffer=self.source_file.get_buffer())
            return disk_file.list_files(), VirtualFileType.DISK
        except VirtualFileValidationError:
            pass

        try:
            cassette_file = CassetteFile(buffer=self.source_file.get_buffer())
            return cassette_file.list_files(), VirtualFileType.CASSETTE
        except VirtualFileValidationError as error:
            pass
""", """        try:
            cassette_file = CassetteFile(buffer=self.source_file.get_buffer())
            return cassette_file.list_files(), VirtualFileType.CASSETTE
        except VirtualFileValidationError as error:
            pass

        try:
            disk_file = DiskFile(buffer=self.source_file.get_buffer())
            return disk_file.list_files(), VirtualFileType.DISK
        except VirtualFileValidationError:
            pass
"""),
    mk("m_add_coco_file_front", VFP, "        self.coco_file_list.append(coco_file)\n", "        self.coco_file_list.insert(0, coco_file)\n"),
    mk("m_only_last_file_rebuilt", VFP, "            cassette_file.add_files(self.coco_file_list)\n", "            cassette_file.add_files(self.coco_file_list[-1:])\n"),
    mk("m_file_exists_dropped", VFP, "            self.file_exists = True\n", ""),
    mk("m_exec_addr_none", "assembler.py", "        exec_addr=program.origin,\n", "        exec_addr=NumericValue(0),\n"),
    mk("m_file_type", "assembler.py", "        type=NumericValue(0x02),\n", "        type=NumericValue(0x01),\n"),
    mk("m_append_true", "assembler.py", "            virtual_file.save_virtual_file(append_mode=args.append)\n        except Exception as error:\n            print(\"Unable to save cassette file:\")", "            virtual_file.save_virtual_file(append_mode=True)\n        except Exception as error:\n            print(\"Unable to save cassette file:\")"),
    mk("m_cas_builds_disk", "assembler.py", "                SourceFile(args.to_cas, file_type=SourceFileType.BINARY),\n                VirtualFileType.CASSETTE\n", "                SourceFile(args.to_cas, file_type=SourceFileType.BINARY),\n                VirtualFileType.DISK\n"),
    mk("m_no_name_guard_removed", "assembler.py", """        if not coco_file.name:
            print("No name for the program specified, not creating disk file")
            return
""", ""),
    mk("m_translation_handler_removed", "assembler.py", "    except TranslationError as error:\n        throw_error(error)\n    except ParseError as error:", "    except ParseError as error:"),
    mk("m_exit_zero", "assembler.py", "    print(\"{}\".format(str(error.statement)))\n    sys.exit(1)\n", "    print(\"{}\".format(str(error.statement)))\n    sys.exit(0)\n"),
    mk("m_to_bin_count", "file_util.py", "            if len(files) > 1:\n", "            if len(files) > 2:\n"),
    mk("m_loop_adds_first", "file_util.py", "                    target_virtual_file.add_coco_file(file)\n            target_virtual_file.save_virtual_file(append_mode=args.append)\n            print(\"Saved to {}\".format(args.to_cas))", "                    target_virtual_file.add_coco_file(virtual_file.list_files()[0])\n            target_virtual_file.save_virtual_file(append_mode=args.append)\n            print(\"Saved to {}\".format(args.to_cas))"),
]
