"""CLI: python -m cocoverif <Cnn> [--tier quick|thorough] [--replay path] [--root dir] [--list-findings]"""
import argparse
import json
import os
import sys
import time
import traceback

from .model import AnalysisError
from .report import Collector, conclude, FINDING


def run_property(pid, tier, root=None, replay=None, list_findings=False, ctx=None, no_evidence=False):
    from .context import Ctx
    from . import props
    t0 = time.time()
    if pid not in props.PROPS:
        raise AnalysisError("unknown property %s" % pid)
    spec = props.PROPS[pid]
    ctx = ctx or Ctx(root, tier)
    insts, notes = [], []
    for rid in spec["rules"]:
        # "RULE" runs the whole rule; "RULE~regex" keeps only the instances whose site matches (the clauses of that rule this property depends on)
        only = None
        if "~" in rid:
            rid, only = rid.split("~", 1)
        fn = props.RULESETS[rid]
        c = Collector(rid)
        key = ("rule", rid)
        if key in ctx.cache:
            c = ctx.cache[key]
        else:
            try:
                fn(ctx, c)
            except AnalysisError:
                raise
            except Exception as e:      # the rule met a shape it cannot handle: nothing is concluded for its remaining sites
                import traceback as _tb
                sys.stderr.write("rule %s stopped on an unexpected shape:\n%s\n" % (rid, _tb.format_exc()))
                c.undecided("rule:%s" % rid, "rule-stopped(%s)" % type(e).__name__, "the rule could not analyse this code shape (%s); its remaining instances are not decided" % (str(e)[:80],))
            ctx.cache[key] = c
        if only is not None:
            import re as _re
            insts += [i for i in c.insts if _re.search(only, i.site) or i.site.startswith("rule:")]
        else:
            insts += c.insts
        notes += ["%s: %s" % (rid, n) for n in c.notes]
    if replay:
        want = json.load(open(replay))
        insts = [i for i in insts if i.rule == want["rule"] and i.site == want["site"]]
        for i in insts:
            print(json.dumps(i.as_dict(), indent=1))
    if list_findings:
        for i in insts:
            if i.verdict == FINDING:
                print("finding: property=%s key=%s :: %s" % (pid, i.key, i.text))
        return 0
    stats = dict(ctx.stats)
    stats["rules_run"] = list(spec["rules"])
    return conclude(pid, spec, insts, notes, tier, t0, stats, no_evidence=no_evidence)


def main(argv=None):
    ap = argparse.ArgumentParser(prog="check")
    ap.add_argument("prop")
    ap.add_argument("--tier", default=os.environ.get("VERIF_TIER", "quick"), choices=["quick", "thorough"])
    ap.add_argument("--replay")
    ap.add_argument("--root")
    ap.add_argument("--list-findings", action="store_true")
    ap.add_argument("--no-evidence", action="store_true")
    a = ap.parse_args(argv)
    try:
        if a.prop == "selftest":
            from . import selftest
            return selftest.main()
        if a.prop == "all":
            from . import props
            from .context import Ctx
            rc = 0
            ctx = Ctx(a.root, a.tier)
            for pid in sorted(props.PROPS):
                try:
                    rc = max(rc, run_property(pid, a.tier, a.root, None, a.list_findings, ctx=ctx, no_evidence=a.no_evidence))
                except AnalysisError as e:
                    print("ANALYSIS-ERROR %s: %s" % (pid, e))
                    rc = max(rc, 2)
                except Exception:
                    print("ANALYSIS-ERROR %s: internal error in the checker" % pid)
                    traceback.print_exc()
                    rc = max(rc, 2)
            return rc
        return run_property(a.prop, a.tier, a.root, a.replay, a.list_findings, no_evidence=a.no_evidence)
    except AnalysisError as e:
        print("ANALYSIS-ERROR %s: %s" % (a.prop, e))
        return 2
    except Exception:
        print("ANALYSIS-ERROR %s: internal error in the checker" % a.prop)
        traceback.print_exc()
        return 2


if __name__ == "__main__":
    sys.exit(main())
