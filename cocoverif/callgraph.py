"""E3: resolved call graph and explicit-exception escape fixpoint.

Receivers are resolved by (1) self/cls/super()/class names through the hierarchy (virtual dispatch to
overriding subclasses), (2) locals assigned from a constructor call, (3) the frozen receiver-family
table below (each entry confirmed by reading the repository), and only then (4) by method name (CHA);
calls resolved by (4) are recorded as unresolved."""
import ast
import collections

from .model import U

FAMILY = {
    "statement": "Statement", "operand": "Operand", "original_operand": "Operand", "value": "Value", "left": "Value", "right": "Value",
    "additional": "Value", "address": "Value", "op_code": "Value", "post_byte": "Value", "symbol": "Value", "old_value": "Value",
    "program": "Program", "source_file": "SourceFile", "include_source": "SourceFile", "virtual_file": "VirtualFile",
    "target_virtual_file": "VirtualFile", "cassette_file": "CassetteFile", "disk_file": "DiskFile", "binary_file": "BinaryFile",
    "preamble": "Preamble", "postamble": "Postamble", "coco_file": "CoCoFile", "file": "CoCoFile", "load_addr": "Value",
    "exec_addr": "Value", "data_length": "Value", "type": "Value", "data_type": "Value", "file_type": "Value", "gaps": "Value",
    "block_type": "Value", "next_byte": "Value", "bytes_used": "Value", "byte_read": "Value", "starting_granule": "Value",
    "bytes_in_last_sector": "Value",
}
BUILTIN_METHODS = {"append", "extend", "format", "strip", "upper", "lower", "replace", "ljust", "rjust", "join", "split", "startswith", "endswith",
                   "find", "rfind", "match", "search", "group", "items", "keys", "values", "decode", "encode", "read", "write", "readlines", "hex",
                   "get", "pop", "insert", "copy", "index", "count", "from_bytes", "to_bytes", "compile", "exists", "add_argument", "parse_args"}
BUILTIN_EXC = {"Exception", "BaseException", "ValueError", "TypeError", "KeyError", "IndexError", "AttributeError", "FileExistsError", "FileNotFoundError",
               "OSError", "IOError", "ZeroDivisionError", "RecursionError", "RuntimeError", "NotImplementedError", "StopIteration", "UnicodeDecodeError"}
EXC_PARENTS = {"FileExistsError": "OSError", "FileNotFoundError": "OSError", "IOError": "OSError", "OSError": "Exception", "UnicodeDecodeError": "ValueError",
               "ValueError": "Exception", "TypeError": "Exception", "KeyError": "LookupError", "IndexError": "LookupError", "LookupError": "Exception",
               "AttributeError": "Exception", "ZeroDivisionError": "ArithmeticError", "ArithmeticError": "Exception", "RecursionError": "RuntimeError",
               "RuntimeError": "Exception", "NotImplementedError": "RuntimeError", "StopIteration": "Exception", "Exception": "BaseException"}


class CallGraph:
    def __init__(self, repo):
        self.repo = repo
        self.unresolved = set()
        self._weak = False
        self.weak = {}
        self.by_name = collections.defaultdict(list)
        for f in repo.all_funcs():
            self.by_name[f.name].append(f)
        self.sites = {}       # func q -> [(kind, what, handler stack, node)]
        for f in repo.all_funcs():
            acc = []
            self._walk(f, f.node.body, [], acc)
            self.sites[f.q] = acc
        self.funcs = {f.q: f for f in repo.all_funcs()}

    # ---- exception classes
    def exc_ancestors(self, name):
        out = [name]
        seen = set()
        cur = name
        while cur and cur not in seen:
            seen.add(cur)
            if cur in self.repo.classes:
                b = self.repo.classes[cur].bases
                cur = b[0].split(".")[-1] if b else None
            else:
                cur = EXC_PARENTS.get(cur)
            if cur:
                out.append(cur)
        return out

    def catches(self, handlers, exc):
        anc = self.exc_ancestors(exc)
        for h in handlers:
            if h.type is None:
                return True
            names = [U(e).split(".")[-1] for e in (h.type.elts if isinstance(h.type, ast.Tuple) else [h.type])]
            if any(n in anc for n in names):
                return True
        return False

    # ---- call resolution
    def callees(self, fn, call, local_ctors):
        repo = self.repo
        f = call.func
        out = []
        if isinstance(f, ast.Name):
            if f.id in repo.classes:
                m = repo.lookup(repo.classes[f.id], "__init__")
                if m:
                    out.append(m)
            else:
                for g in self.by_name.get(f.id, []):
                    if g.cls is None:
                        out.append(g)
        elif isinstance(f, ast.Attribute):
            recv = U(f.value)
            if recv in ("self", "cls") and fn.cls is not None:
                for cn in repo.subclasses(fn.cls.name):
                    m = repo.lookup(repo.classes[cn], f.attr)
                    if m and m not in out:
                        out.append(m)
            elif recv == "super()" and fn.cls is not None:
                for b in fn.cls.bases:
                    b = b.split(".")[-1]
                    if b in repo.classes:
                        m = repo.lookup(repo.classes[b], f.attr)
                        if m:
                            out.append(m)
            elif recv in repo.classes:
                for cn in repo.subclasses(recv):
                    m = repo.lookup(repo.classes[cn], f.attr)
                    if m and m not in out:
                        out.append(m)
            else:
                fam = None
                if recv in local_ctors:
                    fam = local_ctors[recv]
                if fam is None:
                    last = recv.split(".")[-1].split("(")[0].split("[")[0]
                    fam = FAMILY.get(last)
                if fam is None and isinstance(f.value, ast.Call) and isinstance(f.value.func, ast.Name) and f.value.func.id in repo.classes:
                    fam = f.value.func.id
                if fam and fam in repo.classes:
                    for cn in repo.subclasses(fam):
                        m = repo.lookup(repo.classes[cn], f.attr)
                        if m and m not in out:
                            out.append(m)
                elif f.attr not in BUILTIN_METHODS:
                    cands = [g for g in self.by_name.get(f.attr, []) if g.cls is not None]
                    if cands:
                        self.unresolved.add((fn.q, U(f)))
                        self._weak = True
                        out += cands
        return out

    def _walk(self, fn, stmts, stack, acc):
        local_ctors = {}
        for n in ast.walk(fn.node):
            if isinstance(n, ast.Assign) and isinstance(n.value, ast.Call) and isinstance(n.value.func, ast.Name) and n.value.func.id in self.repo.classes:
                for t in n.targets:
                    local_ctors[U(t)] = n.value.func.id
            # element type of the statement list: for x in self.statements / enumerate(self.statements) / statements[a:b]
            if isinstance(n, (ast.For, ast.comprehension)) and "statements" in U(n.iter) and "Statement" in self.repo.classes:
                t = n.target
                if isinstance(t, ast.Tuple) and t.elts:
                    t = t.elts[-1]
                local_ctors[U(t)] = "Statement"
        self._walk2(fn, stmts, stack, acc, local_ctors)

    def _walk2(self, fn, stmts, stack, acc, local_ctors):
        for s in stmts:
            if isinstance(s, ast.Try):
                self._walk2(fn, s.body, stack + [s.handlers], acc, local_ctors)
                for h in s.handlers:
                    self._walk2(fn, h.body, stack, acc, local_ctors)
                self._walk2(fn, s.orelse, stack, acc, local_ctors)
                self._walk2(fn, s.finalbody, stack, acc, local_ctors)
                continue
            if isinstance(s, ast.Raise) and s.exc is not None:
                name = (U(s.exc.func) if isinstance(s.exc, ast.Call) else U(s.exc)).split(".")[-1]
                if name not in self.repo.classes and name not in BUILTIN_EXC:
                    # `raise helper(...)` / `raise error`: the class is whatever the helper returns or the handler bound
                    resolved = None
                    for g in self.by_name.get(name, []):
                        for r in ast.walk(g.node):
                            if isinstance(r, ast.Return) and isinstance(r.value, ast.Call):
                                rn = U(r.value.func).split(".")[-1]
                                if rn in self.repo.classes or rn in BUILTIN_EXC:
                                    resolved = rn
                    name = resolved
                if name is not None:
                    acc.append(("raise", name, stack, s))
            if isinstance(s, (ast.FunctionDef, ast.ClassDef)):
                continue
            sub_bodies = []
            for field in ("body", "orelse", "finalbody"):
                b = getattr(s, field, None)
                if isinstance(b, list) and b and isinstance(b[0], ast.stmt):
                    sub_bodies.append(b)
            exprs = [n for n in ast.iter_child_nodes(s) if not isinstance(n, (ast.stmt, ast.ExceptHandler))]
            for e in exprs:
                for cnode in ast.walk(e):
                    if isinstance(cnode, ast.Call):
                        self._weak = False
                        for cal in self.callees(fn, cnode, local_ctors):
                            acc.append(("call" if not self._weak else "call?", cal.q, stack, cnode))
            for b in sub_bodies:
                self._walk2(fn, b, stack, acc, local_ctors)

    def escapes(self):
        """q -> set of (exception class, origin 'Func:line'); self.weak[q] holds the pairs derivable only through name-resolved (CHA) calls"""
        esc = {q: {} for q in self.sites}      # (exc, origin) -> weak flag (False = established through resolved calls)
        changed = True
        while changed:
            changed = False
            for q, acc in self.sites.items():
                for kind, what, stack, node in acc:
                    if kind == "raise":
                        items = [((what, "%s:%d" % (q, node.lineno)), False)]
                    else:
                        items = [(k, w or kind == "call?") for k, w in esc.get(what, {}).items()]
                    for (exc, origin), weak in items:
                        if any(self.catches(h, exc) for h in stack):
                            continue
                        cur = esc[q].get((exc, origin))
                        if cur is None or (cur and not weak):
                            esc[q][(exc, origin)] = weak
                            changed = True
        self.weak = {q: {k for k, w in d.items() if w} for q, d in esc.items()}
        return {q: set(d) for q, d in esc.items()}

    def reachable_from(self, q):
        seen = {q}
        stack = [q]
        while stack:
            a = stack.pop()
            for kind, what, st, node in self.sites.get(a, []):
                if kind in ("call", "call?") and what not in seen:
                    seen.add(what)
                    stack.append(what)
        return seen

    def cycles_from(self, q):
        """functions on a call cycle reachable from q"""
        reach = self.reachable_from(q)
        out = []
        for f in sorted(reach):
            if f in self.reachable_from_strict(f):
                out.append(f)
        return out

    def reachable_from_strict(self, q):
        seen = set()
        stack = [q]
        while stack:
            a = stack.pop()
            for kind, what, st, node in self.sites.get(a, []):
                if kind in ("call", "call?") and what not in seen:
                    seen.add(what)
                    stack.append(what)
        return seen
